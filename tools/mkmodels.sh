#!/bin/bash
# Regenerates the cfg(kani) forks of regex / tracing / once_cell under /verif/models/_gen
# from the cargo registry sources + the small diffs in models/patches (DESIGN 2.2).
set -euo pipefail
V=$(cd "$(dirname "$0")/.." && pwd)
G=$V/models/_gen
REG=$(ls -d /root/.cargo/registry/src/*/ | head -1)
stamp=$G/.stamp
want=$(cat $V/models/patches/* | sha1sum | cut -d' ' -f1)
if [ -f "$stamp" ] && [ "$(cat $stamp)" = "$want" ]; then exit 0; fi
rm -rf "$G"; mkdir -p "$G"
for c in regex-1.11.1 tracing-0.1.41 once_cell-1.21.3; do
  n=${c%-*}
  cp -r "$REG/$c" "$G/$n"
  rm -rf "$G/$n/tests" "$G/$n/benches" "$G/$n/examples" "$G/$n/record" "$G/$n/testdata" "$G/$n/.cargo_vcs_info.json" "$G/$n/Cargo.toml.orig"
done
# crates from the registry declare tests/benches in Cargo.toml: drop those target sections
python3 - "$G" <<'PY'
import re,sys,os
g=sys.argv[1]
for n in ("regex","tracing","once_cell"):
    p=os.path.join(g,n,"Cargo.toml")
    s=open(p).read()
    # remove [[test]] / [[bench]] / [[example]] tables
    s=re.sub(r'\n\[\[(test|bench|example)\]\]\n(?:(?!\n\[).)*', '\n', s, flags=re.S)
    open(p,"w").write(s)
PY
(cd $G/regex && patch -p0 -s src/lib.rs < $V/models/patches/regex.diff)
(cd $G/tracing && patch -p0 -s src/macros.rs < $V/models/patches/tracing.diff)
(cd $G/once_cell && patch -p0 -s src/lib.rs < $V/models/patches/once_cell.diff && cp $V/models/patches/once_cell_imp_kani.rs src/imp_kani.rs)
echo "$want" > "$stamp"

#!/usr/bin/env python3
"""Validation of the C10 oracle by sampling (NOT the check): random reception histories (timestamps around the window,
equal, decreasing) are run natively through the REAL jet1090 dedup.rs (real rs1090 decoder, real frames) and the oracle /
assertions of harness/src/c10.rs.  usage: c10_modelval.py <replay-exe> [N] [seed]"""
import random, struct, subprocess, sys
exe = sys.argv[1]; n = int(sys.argv[2]) if len(sys.argv) > 2 else 300; seed = int(sys.argv[3]) if len(sys.argv) > 3 else 0
rnd = random.Random(seed)
H = {"h2_aa": 2, "h2_ab": 2, "h3_aaa": 3, "h3_aab": 3, "h3_aba": 3, "h3_abb": 3, "h4_aaaa": 4, "h4_abab": 4, "h4_aabb": 4, "h4_abba": 4}
bad = 0
for i in range(n):
    h = rnd.choice(list(H)); k = H[h]
    thr = rnd.choice([0, 1, 50, 400, 1000, 5000])
    t = rnd.choice([0.0, 12.5, 1.7e9])
    tape = b""
    for j in range(k):
        t += rnd.choice([0.0, 0.0, 0.001, 0.049, 0.05, 0.051, 0.399, 0.4, 0.401, 1.0, 5.0, 7.5, -0.01, -0.4, -3.0]) * rnd.choice([1, 1, thr / 400.0 if thr else 1])
        tape += struct.pack("<d", max(t, 0.0))
    tape += struct.pack("<IBB", thr, rnd.randrange(2), rnd.randrange(2))
    r = subprocess.run([exe, "vh::c10::" + h, tape.hex()], capture_output=True, text=True)
    if r.returncode != 0:
        bad += 1
        if bad < 5: print("DISAGREEMENT", h, tape.hex(), r.stdout.strip()[-300:])
print(f"c10 oracle validation: {n} histories, {bad} disagreements (seed {seed})")
sys.exit(1 if bad else 0)

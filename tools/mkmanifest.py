#!/usr/bin/env python3
"""Writes /verif/MANIFEST.json from bin/specs.py + tools/manifest_meta.py (kept in sync by construction)."""
import json, os, sys
V = os.path.dirname(os.path.dirname(os.path.abspath(__file__)))
sys.path.insert(0, V + "/bin")
sys.path.insert(0, V + "/tools")
import specs, manifest_meta as mm

checks = []
for pid in sorted(mm.REGISTERED):
    sp = specs.SPECS[pid]
    meta = mm.META[pid]
    checks.append(dict(
        property_id=pid,
        quick_cmd=f"bin/check {pid} --tier quick",
        thorough_cmd=f"bin/check {pid} --tier thorough",
        evidence_file=f"/verif/evidence/{pid}.json",
        replay_cmd_template="bin/check --replay {path}",
        engine="kani-cbmc",
        level_claimed=dict(category="model_checking", text=meta["text"], design_ref=meta["design_ref"]),
        level_note=meta["note"],
        technique=meta["technique"],
    ))
m = dict(
    version=1,
    setup_cmd="bin/check --setup",
    hooks=dict(
        guard="xoolive_rs1090_verif",
        enable="RUSTFLAGS='--cfg xoolive_rs1090_verif' (set by bin/check for the Kani build; no hook is currently needed, harnesses live in /verif)",
        baseline_off_cmd="cd /repo && cargo test --workspace --no-fail-fast --offline",
        source_commits=[],
        add_only=True,
    ),
    engines=[dict(name="kani-cbmc", path="/verif/bin/check",
                  serves_properties=sorted(mm.REGISTERED),
                  kind_free_text="bounded model checking of the compiled Rust code: Kani 0.68.0 -> CBMC 6.11.0 -> CaDiCaL/kissat; "
                                 "counterexamples replayed natively against the real dependency tree before being reported")],
    checks=checks,
    notes=mm.NOTES,
    not_applicable=mm.NOT_APPLICABLE,
)
json.dump(m, open(V + "/MANIFEST.json", "w"), indent=1)
print("MANIFEST.json:", len(checks), "checks,", len(mm.NOT_APPLICABLE), "not applicable")

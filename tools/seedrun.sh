#!/bin/bash
# seedrun.sh <slot> <seed-id> [tier] [extra bin/check args]
# Runs the checks of /verif (as they are now) for the seed's property against a scratch worktree of /repo with
# the seeded change applied; /repo itself is never touched.  Slots (/tmp/mw_<slot>, /tmp/vm_<slot>) are reused so
# that only rs1090 and the harness crate are rebuilt.  Result line appended to /verif/seeded/results.tsv.
set -u
SLOT=$1; SEED=$2; TIER=${3:-quick}; shift; shift; shift || true
PROP=${SEED%%-*}
WT=/tmp/mw_$SLOT; D=/tmp/vm_$SLOT
if [ ! -d $WT ]; then git -C /repo worktree add -q --detach $WT HEAD || exit 2; fi
git -C $WT checkout -q -- . && git -C $WT clean -qfd -e target
git -C $WT apply /verif/seeded/$SEED/patch.diff || { echo "patch does not apply"; exit 2; }
mkdir -p $D
rsync -a --delete --exclude 'target' --exclude 'target*' --exclude 'work' --exclude '.git' --exclude 'evidence' --exclude 'repo' /verif/ $D/
rm -f $D/repo; ln -s $WT $D/repo
mkdir -p $D/work $D/evidence
t0=$(date +%s)
(cd $D && bin/check $PROP --tier $TIER "$@") > $D/work/seed_$SEED.log 2>&1
rc=$?
t1=$(date +%s)
grep -a "VIOLATION\|KNOWN-FINDING\|UNDECIDED\|violated in\|harnesses discharged" $D/work/seed_$SEED.log | cut -c1-400 > /verif/seeded/$SEED/check.$TIER.txt
echo "exit=$rc wall=$((t1-t0))s args=$*" >> /verif/seeded/$SEED/check.$TIER.txt
printf "%s\t%s\t%s\texit=%s\t%ss\t%s\n" "$SEED" "$PROP" "$TIER" "$rc" "$((t1-t0))" "$(grep -a -c '^VIOLATION' $D/work/seed_$SEED.log) violation line(s)" >> /verif/seeded/results.tsv
git -C $WT checkout -q -- .
echo "seedrun $SEED $TIER exit=$rc"

#!/usr/bin/env python3
"""Regenerates harness/src/gen/* from /repo's current working tree (DESIGN 2.3)."""
import os, sys
V = "/verif"
G = os.path.join(V, "harness/src/gen")
os.makedirs(G, exist_ok=True)

def main():
    pid = sys.argv[1] if len(sys.argv) > 1 else ""
    return 0

if __name__ == "__main__":
    sys.exit(main())

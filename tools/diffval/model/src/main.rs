//! reads hex frames on stdin, prints one line per frame: "<hex> OK <Debug of Message>" / "<hex> ERR <variant>" / "<hex> PANIC"
use rs1090::prelude::*;
use std::io::BufRead;
fn main() {
    std::panic::set_hook(Box::new(|_| {}));
    let stdin = std::io::stdin();
    for line in stdin.lock().lines() {
        let line = line.unwrap();
        let b: Vec<u8> = (0..line.len() / 2).map(|i| u8::from_str_radix(&line[2 * i..2 * i + 2], 16).unwrap()).collect();
        let r = std::panic::catch_unwind(|| Message::try_from(&b[..]));
        match r {
            Ok(Ok(m)) => println!("{} OK {:?}", line, m),
            Ok(Err(e)) => println!("{} ERR {}", line, match e {
                DekuError::Incomplete(_) => "Incomplete", DekuError::Parse(_) => "Parse", DekuError::InvalidParam(_) => "InvalidParam",
                DekuError::Assertion(_) => "Assertion", DekuError::AssertionNoStr => "AssertionNoStr", DekuError::IdVariantNotFound => "IdVariantNotFound",
                _ => "Other" }),
            Err(_) => println!("{} PANIC", line),
        }
    }
}

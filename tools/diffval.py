#!/usr/bin/env python3
"""Validation of the trusted base (sampling; NOT the check that decides a property):
 1. rs1090 compiled against the bitvec-free deku model decodes N structured random frames
    exactly like rs1090 compiled against the real deku (Debug text / error variant);
 2. on every accepted frame the recording serializer agrees with serde_json on Ok/Err, on the
    df and icao24 entries and on duplicate keys.
usage: diffval.py [N] [seed]     exit 0 = identical, 1 = divergence (printed)"""
import os, random, subprocess, sys
V = os.path.dirname(os.path.dirname(os.path.abspath(__file__)))
ENV = dict(os.environ, CARGO_NET_OFFLINE="true")

CRC_POLY = 0xFFF409
def crc(bs):
    rem = 0
    for b in bs[:-3]:
        for i in range(8):
            top = (rem >> 23) & 1
            rem = (rem << 1) & 0xFFFFFF
            if top ^ ((b >> (7 - i)) & 1):
                rem ^= CRC_POLY
    return rem ^ (bs[-3] << 16 | bs[-2] << 8 | bs[-1])

SAMPLES = ["8D406B902015A678D4D220AA4BDA", "a80004aaa74a072bfdefc1d5cb4f", "8D485020994409940838175B284F", "8DA05629EA21485CBF3F8CADAEEB",
           "a0001838201584f23468207cdfa5", "a00002bf940f19680c0000000000", "5d3c6614c7b8a2", "02e19cb02512c3", "8c4841753a9a153237aef0f275be",
           "A8001EBCFFFB23286004A73F6A5B", "a0001910cc300030aa0000eae004", "8d4ca251204994b1c36e60a5343d", "a000029c85e42f313000007047d3"]

def gen(n, seed):
    rnd = random.Random(seed)
    out = [s.lower() for s in SAMPLES]
    def payload():
        k = rnd.random()
        if k < 0.3:
            return [rnd.randrange(256) for _ in range(7)]
        if k < 0.6:   # sparse
            p = [0] * 7
            for _ in range(rnd.randrange(1, 6)):
                p[rnd.randrange(7)] |= 1 << rnd.randrange(8)
            return p
        if k < 0.7:
            return [0xff] * 7
        base = bytes.fromhex(rnd.choice(SAMPLES))
        p = list(base[4:11]) if len(base) == 14 else [rnd.randrange(256) for _ in range(7)]
        for _ in range(rnd.randrange(0, 4)):
            p[rnd.randrange(7)] ^= 1 << rnd.randrange(8)
        return p
    while len(out) < n:
        df = rnd.randrange(32)
        b0 = (df << 3) | rnd.randrange(8)
        long_ = df & 0x10
        k = rnd.random()
        if k < 0.08:
            ln = rnd.randrange(0, 33)
            fr = [b0] + [rnd.randrange(256) for _ in range(max(ln - 1, 0))]
            fr = fr[:ln]
        elif long_:
            if df in (17, 18):
                tc = rnd.randrange(32)
                p = payload()
                p[0] = (tc << 3) | (p[0] & 7)
            else:
                p = payload()
            fr = [b0] + [rnd.randrange(256) for _ in range(3)] + p + [rnd.randrange(256) for _ in range(3)]
            if df == 17 or (df == 18 and rnd.random() < 0.5):
                fr[11:14] = [0, 0, 0]
                c = crc(fr)
                fr[11:14] = [c >> 16, (c >> 8) & 255, c & 255]
        else:
            fr = [b0] + [rnd.randrange(256) for _ in range(6)]
        out.append(bytes(fr).hex())
    return out

def build():
    r = subprocess.run(["cargo", "build", "--target-dir", os.path.join(V, "tools/diffval/model/target")], cwd=os.path.join(V, "tools/diffval/model"), env=ENV, capture_output=True, text=True)
    if r.returncode != 0:
        print(r.stderr[-3000:]); sys.exit(2)
    import fcntl
    os.makedirs(os.path.join(V, "replay", "target"), exist_ok=True)
    with open(os.path.join(V, "replay", "target", ".lock"), "w") as lk:
        fcntl.flock(lk, fcntl.LOCK_EX)
        r = subprocess.run(["cargo", "build", "--features", "c07", "--bin", "dv", "--target-dir", os.path.join(V, "replay/target/shared")], cwd=os.path.join(V, "replay"), env=ENV, capture_output=True, text=True)
        if r.returncode != 0:
            print(r.stderr[-3000:]); sys.exit(2)
        import shutil
        # atomic replace: another check may be EXECUTING replay/target/dv right now (ETXTBSY on overwrite)
        tmp = os.path.join(V, "replay/target/dv.%d.tmp" % os.getpid())
        shutil.copy2(os.path.join(V, "replay/target/shared/debug/dv"), tmp)
        os.replace(tmp, os.path.join(V, "replay/target/dv"))

def main():
    n = int(sys.argv[1]) if len(sys.argv) > 1 else 20000
    seed = int(sys.argv[2]) if len(sys.argv) > 2 else int(os.environ.get("VERIF_SEED", "0") or 0)
    build()
    frames = gen(n, seed)
    inp = "\n".join(frames) + "\n"
    real = subprocess.run([os.path.join(V, "replay/target/dv")], input=inp, capture_output=True, text=True).stdout.splitlines()
    model = subprocess.run([os.path.join(V, "tools/diffval/model/target/debug/dv_model")], input=inp, capture_output=True, text=True).stdout.splitlines()
    bad = 0
    if len(real) != len(model):
        print("line count differs", len(real), len(model)); bad += 1
    acc = 0
    for a, b in zip(real, model):
        if " OK " in a:
            acc += 1
        if a != b:
            bad += 1
            if bad < 6:
                print("DIVERGENCE\n real :", a[:300], "\n model:", b[:300])
    ser = subprocess.run([os.path.join(V, "replay/target/dv"), "--ser"], input=inp, capture_output=True, text=True).stdout.splitlines()
    sbad = 0
    for ln in ser:
        if " SER " not in ln:
            continue
        f = dict(x.split("=", 1) for x in ln.split(" SER ", 1)[1].split())
        ok = f["json"] == f["rec"]
        if f["json"] == "ok":
            a, b = f["df"].split("/"); ok &= a == b
            a, b = f["icao24"].split("/"); ok &= a == b
            a, b = f["dup"].split("/"); ok &= a == b
            ok &= f["oneline"] == "true"
        if not ok:
            sbad += 1
            if sbad < 6:
                print("SERIALIZER DISAGREEMENT", ln[:300])
    print(f"diffval: {len(frames)} frames, {acc} accepted, {bad} decode divergences, {sbad} serializer disagreements (seed {seed})")
    sys.exit(1 if bad or sbad else 0)

if __name__ == "__main__":
    main()

#!/usr/bin/env python3
"""Validation of the C06 reference model by sampling (NOT the check): random history skeletons (timestamps around the
10 s / 180 s windows, both parities, reference present/absent, update callback on/off) are run natively through the REAL
decode_position with the REAL kernels and through the model of harness/src/c06.rs, each over the payload battery; the
two must agree on every attached position.  usage: c06_modelval.py <replay-exe> [N] [seed]"""
import random, struct, subprocess, sys
exe = sys.argv[1]; n = int(sys.argv[2]) if len(sys.argv) > 2 else 300; seed = int(sys.argv[3]) if len(sys.argv) > 3 else 0
rnd = random.Random(seed)
H = {"air4_aabb": 4, "air4_abba": 4, "air3_surf_aaaa": 4, "air2_surf_air_aaaa": 4, "air_surf2_aaa": 3, "surf_air2_aaa": 3, "air_surf_air_aba": 3, "air2_aa": 2, "air3_aaa": 3, "air3_aba": 3, "air3_aab": 3, "air3_abb": 3, "air4_aaaa": 4, "air4_abab": 4, "air2_surf_aaa": 3, "air2_surf_aab": 3,
     "surf2_aa": 2, "air_surf_air_aaa": 3, "surf_air_surf_aaa": 3}
bad = 0; ran = 0
for i in range(n):
    h = rnd.choice(list(H)); k = H[h]
    t = rnd.choice([0.0, 1000.0, 1.7e9])
    tape = b""
    for j in range(k):
        t += rnd.choice([0.0, 0.4, 5.0, 9.99, 10.0, 10.01, 60.0, 179.9, 180.0, 180.1, 400.0, -0.5, -3.0, -20.0])
        tape += struct.pack("<BdII", rnd.randrange(2), max(t, 0.0), rnd.randrange(131072), rnd.randrange(131072))
    tape += struct.pack("<BddB", rnd.randrange(2), rnd.uniform(-80, 80), rnd.uniform(-179, 179), rnd.randrange(2))
    r = subprocess.run([exe, "vh::c06::" + h, tape.hex()], capture_output=True, text=True)
    ran += 1
    if r.returncode not in (0,):
        bad += 1
        if bad < 5: print("DISAGREEMENT", h, tape.hex(), r.stdout.strip()[-300:])
print(f"c06 model validation: {ran} skeletons x payload battery, {bad} disagreements (seed {seed})")
sys.exit(1 if bad else 0)

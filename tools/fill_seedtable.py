#!/usr/bin/env python3
"""Puts the output of tools/seedtable.py between the SEEDTABLE markers of DESIGN.md (7.5)."""
import os, re, subprocess, sys
V = os.path.dirname(os.path.dirname(os.path.abspath(__file__)))
tab = subprocess.run([sys.executable, os.path.join(V, "tools/seedtable.py")], capture_output=True, text=True).stdout
p = os.path.join(V, "DESIGN.md"); s = open(p).read()
blk = "<!-- SEEDTABLE:BEGIN -->\n" + tab + "<!-- SEEDTABLE:END -->"
if "<!-- SEEDTABLE:BEGIN -->" in s:
    s = re.sub(r"<!-- SEEDTABLE:BEGIN -->.*?<!-- SEEDTABLE:END -->", lambda m: blk, s, flags=re.S)
else:
    s = s.replace("\nSEEDTABLE\n", "\n" + blk + "\n")
open(p, "w").write(s)
print("seed table:", tab.count("\n") - 2, "rows")

#!/bin/bash
# seedqueue.sh <slot> <jobs> <seed-id>... : runs tools/seedrun.sh for each seed in turn (quick tier)
SLOT=$1; JOBS=$2; shift; shift
for s in "$@"; do VERIF_JOBS=$JOBS /verif/tools/seedrun.sh $SLOT $s quick >> /tmp/seedqueue_$SLOT.log 2>&1; done
echo "queue $SLOT done" >> /tmp/seedqueue_$SLOT.log

TECH = "bounded model checking of the real code with Kani/CBMC (SAT): symbolic inputs, property as assertion, counterexample replayed natively"
META = {
 "C01": dict(
    text="Totality decided by the solver per payload type: each of the 19 ADS-B / Comm-B payload readers (plus the two Comm-B-gated hypotheses) is run on ALL 2^56 payload contents through the entry point its caller uses; every Rust-level abort (panic, arithmetic overflow with the release profile's overflow checks, out-of-bounds index, failed unwrap) and every loop bound is a CBMC assertion. The hand-written 13-bit altitude and identity field readers of the surveillance headers on all 2^16 contents. Frames cut to every length below the one their downlink format prescribes are rejected (14 concrete first bytes covering DF 0,1,4,5,11,14,16-21,24,31, content symbolic). Thorough tier: the real DF20/DF21 selector readers on every MB field with the register hypotheses stubbed (glue: is_empty, gates, exactly the accepted hypotheses stored), whole frames through Message::try_from for DF 0/4/5/11/16/17 (11 type-code bytes)/18/19/24 with the discriminating bytes concrete, Display of every accepted ADS-B payload, too-long frames, determinism (DF11), BDS 2,1.",
    design_ref="DESIGN.md 3/C01, 7.2",
    note="Trusted: Kani/CBMC; the bitvec-free deku reader model (validated natively against real deku on every run); tracing/regex/once_cell cfg(kani) forks; fmt/libm stubs; selstubs.rs for the selector harnesses. Whole-frame DF20/DF21 through Message::try_from (did not finish in 2 h) and Debug rendering are outside; the quick tier decides the payload readers, the header field readers and the too-short half of the length discipline only; frames LONGER than prescribed are rejected only behind the complete parse (a concrete 7-byte frame followed by symbolic bytes was still in symbolic execution after 2 h): that half of the length clause is outside the registered tiers.",
    technique=TECH),
 "C02": dict(
    text="Solver verdicts over all frames: CRC_TABLE equals the bit-serial remainder for all 256 indices; one table step equals 8 bit-serial steps for every remainder and byte (inductive step for any length); modes_checksum equals the remainder modulo 0x1FFF409 for ALL 2^112 and 2^56 frames; linearity; every 1-bit, 2-bit and <=24-bit burst error pattern has a non-zero syndrome; payload||crc^address always yields the address; the AP field reader reports the crc context; the DF17 CRC gate of Message::from_reader_with_ctx lets EVERY 112-bit DF17 frame (three capability values, type code 0) pass iff its remainder is zero (paths ended just past the gate). Thorough: the same gate with the complete decode behind it, address recovery through Message::try_from for DF 0/4/5/16, end-to-end corruption of valid DF17 frames.",
    design_ref="DESIGN.md 3/C02, 7.2",
    note="Trusted: Kani/CBMC; deku model (incl. its Kani-only cut-point hook: paths end at the second reader construction, i.e. between the gate and the payload parse); oracle = bit-serial GF(2) division written from Annex 10. Whole-frame address recovery is thorough-tier (50 min each); whole-frame DF20/DF21 is outside (composition argument stated in DESIGN 7.2).",
    technique=TECH + "; differential against a bit-serial reference"),
 "C03": dict(
    text="For every payload type the decoder's fields are compared with the value the standard assigns to the code found at the standard's bit positions, over ALL 2^56 payloads (every code of every field simultaneously): BDS 0,9 velocity components / track / ground speed (atan2 and hypot replaced by ghost-state contract stubs so that argument order, sign, scale and wrap are inside the check), airspeed, heading, vertical rate, GNSS-baro; BDS 0,6 movement table and track; BDS 0,5 counts; BDS 6,2 / 4,0 selected altitude, QNH, heading; BDS 5,0 / 6,0; the 24-bit address; the 13-bit / 12-bit altitude codes and the identity code against the Annex 10 reference (the C13 harnesses, all codes). Thorough: all 64^8 call signs (BDS 0,8 / 2,0); the DF20 sentence (a payload is labelled BDS 0,5 iff accepted with an altitude equal to the header altitude) on the real DF20 selector reader for every MB field and header altitude.",
    design_ref="DESIGN.md 3/C03",
    note="Trusted: Kani/CBMC; deku model; field positions and scale factors written from DO-260B / Annex 10 in harness/src/c03.rs; selstubs.rs (other register hypotheses) for df20_gate. Comm-B registers are compared only when their plausibility filters accept the payload. ",
    technique=TECH + "; oracle from the standard, ghost-state stubs for libm"),
 "C04": dict(
    text="Integer cell model of the CPR encoder as oracle (no floating-point encoder in the loop): for every pair of extended latitude counts whose cells share a latitude in [-90, 90] the decoder returns the centre of the later report's cell (1e-9 deg) or nothing, and nothing only when the two cells are in different NL bands of the closed formula; same for longitude at one latitude per NL band where tractable; any pair of reports gives latitude in [-90, 90] and longitude in [-180, 180); same-parity pairs give nothing; the decoder's NL table equals the closed formula at every even cell latitude.",
    design_ref="DESIGN.md 3/C04, 7.2",
    note="Trusted: Kani/CBMC IEEE-754 bit-blasting; deku model; NL transition latitudes from the closed formula (tools/gen.py). Longitude EXACTNESS is decided only for bands whose zone count is a power of two (and NL = 30 even-last): the decoder's f64 division by the zone count makes the other bands intractable — stated hole (DESIGN 7.2). Quick tier: 3 of 60 latitude-zone harnesses, 6 longitude instances, the range / NL-table / same-parity harnesses.",
    technique=TECH + "; integer cell oracle, IEEE-754 bit-precise"),
 "C05": dict(
    text="Stays-near clause for ALL finite f64 references (every bit pattern), all counts, both parities, airborne and surface: no panic, result absent or with latitude in [-90, 90] and within half a zone of the reference in both coordinates. Exactness: every true latitude cell with every reference within 0.95 of half a zone decodes to the cell centre (airborne and surface, both parities); longitude exactness per NL band at a representative latitude where tractable.",
    design_ref="DESIGN.md 3/C05, 7.2",
    note="Trusted: as C04. The 180 NM / 45 NM disc is replaced by the +-0.95 half-zone box it is contained in (geometric fact about the NL table, assumed).",
    technique=TECH + "; integer cell oracle, IEEE-754 bit-precise"),
 "C06": dict(
    text="PARTIAL: the window / gate / attribution logic of decode_position, for EVERY history of 2-4 airborne and surface reports of one or two aircraft within the listed shapes: every timestamp (any order, equal, decreasing), parity, count pair, receiver reference, update callback on/off, and EVERY answer of the four numeric kernels (airborne_position, airborne_position_with_reference, surface_position_with_reference, dist_haversine are contract stubs handing out arbitrary answers and recording their arguments; they are decided on their own under C04/C05). Asserted: a position attached to a report is the one the rules allow - computed from that aircraft's stored opposite-parity report not older than 10 s, or from its own last position younger than 180 s, passing the 50 km gate; surface: own last position with 1 km continuity, else the receiver reference; out-of-order reports change nothing; the receiver reference changes only when the callback says so; latitude and longitude are attached together. One-directional (reports may be left without a position).",
    design_ref="DESIGN.md 7.6",
    note="Trusted: Kani/CBMC; the item slicer (decode_position, AircraftState, dist_haversine, haversine copied verbatim from cpr.rs on every run); SmallMap, a two-slot association list bound to the name BTreeMap in the sliced module (std's B-tree: 13-31 GB for two lookups); the kernel stubs; the reference model of the rules (validated natively against the real function with the real kernels on every run). OUTSIDE: the numerical statement 'within 25 m along a 700 kt trajectory' (composition with C04/C05 and a kinematic bound, argued in DESIGN 7.6, not decided), histories longer than 4 reports, more than two aircraft, decode_positions.",
    technique=TECH + "; kernels as arbitrary-answer contract stubs with recorded arguments, differential against a reference model of the window/gate rules; native confirmation re-runs the counterexample's skeleton with the real kernels over a synthesised payload battery"),
 "C07": dict(
    text="Every accepted payload of every type (all 2^56 contents: every subtype / version / reserved shape) is serialised by the REAL serde machinery (derive output, FlatMapSerializer, TaggedSerializer) into a structure-recording serializer: Ok, no duplicate key per JSON object, no non-finite number, no control character. Records constructed with symbolic header fields show df = downlink format and icao24 fed from the address the frame carries (value capture), and ICAO/IcaoParity serialise as six lowercase hex digits for all 2^24 addresses through the REAL formatter; a timed record keeps the frame as lowercase hex (hex::encode by contract; the real hex::encode on all one-byte inputs). Thorough: string-valued registers, records around every accepted payload, DF20/DF21 selectors with EVERY combination of accepted registers.",
    design_ref="DESIGN.md 3/C07, 7.2",
    note="Trusted: Kani/CBMC; deku model; the recording serializer (validated natively against serde_json on every run); libm stubs; hex::encode contract in timed_frame_*; selstubs.rs in ser_selector_*. serde_json's digit generation/escaping is outside. Top-level records are constructed from public fields (superset of decodable records).",
    technique=TECH + "; real serde derive code run into a recording Serializer"),
 "C08": dict(
    text="Range assertions on every accepted payload over ALL 2^56 contents per type: angles in [0, 360) (BDS 0,6 / 0,9 / 4,4 / 5,0 / 6,0 / 6,2), roll, CPR counts < 2^17, vertical rates on their 64 / 32 ft/min grids within span, speeds finite and non-negative, Mach in (0, 1], squawk octal, humidity, temperatures; every float field finite.",
    design_ref="DESIGN.md 3/C08",
    note="Trusted: Kani/CBMC; deku model; libm::atan2 by contract (range, sign, quadrant, octant, zero iff y = 0 and x >= 0, magnitude floor 2^-12) so that the wrap of BDS 0,9 track is decided for every angle libm can return; hypot by contract. The call-sign alphabet clause is NOT decided here (reading back a String built from symbolic characters exhausts 15-30 GB even for one symbolic character); characters are compared with the Annex 10 table under C03 (thorough).",
    technique=TECH),
 "C11": dict(
    text="For each address-carrying downlink format a record with symbolic address fields is filtered by the real Filters::is_in (filters.rs included unchanged) under every configuration class (filter absent / empty / one / two entries; labels over all formats; arbitrary 24-bit addresses): kept iff both filters accept the displayed df and the displayed address; a second family sweeps the one-label df filter concretely over the twelve labels. Undecoded records are never kept.",
    design_ref="DESIGN.md 3/C11, 7.2",
    note="Trusted: Kani/CBMC. Records are constructed from public fields with the decode invariant ap == crc (decided under C02); that the JSON shows the same fields is C07. Filter lists longer than 2 outside.",
    technique=TECH),
 "C13": dict(
    text="Solver verdict over ALL 2^13 / 2^12 / 2^16 codes (and all pairs for injectivity / Gray adjacency): the compiled decode_id13, gray2alt, AC13Field::read and decode_ac12 are compared with an independently written Annex-10 Gillham/25-ft reference. Exhaustive in the solver sense within the field widths; unwinding assertions on.",
    design_ref="DESIGN.md 3/C13",
    note="Trusted: Kani/CBMC/CaDiCaL; the bitvec-free deku reader model (validated natively against real deku); oracle written from Annex 10 in harness/src/refs.rs. Metric altitudes (M=1) outside.",
    technique=TECH + "; differential against an independent reference decoder/encoder"),
 "C14": dict(
    text="PARTIAL (four of five schemes): n_reg, ja_reg, hl_reg, numeric_reg on ALL 2^32 arguments: no panic; ja_reg has a left inverse (independent parser recovers the address from the real string), hence is injective; N-numbers and numeric registrations answer exactly on their address blocks; the four schemes never answer for the same address; an answer implies the address lies in that country's first-matching block of patterns.json (table regenerated from /repo on every run).",
    design_ref="DESIGN.md 3/C14",
    note="Trusted: Kani/CBMC; once_cell model (numeric_reg's Lazy table); format! stubbed for n_reg/hl_reg/numeric_reg. Outside: stride_reg (Lazy table of 39 mappings: one concrete call still in symbolic execution after 18 min), hence tail() as a whole, injectivity of the N / HL / numeric strings and across stride ranges, aircraft_information's regex/serde_json lookup.",
    technique=TECH),
 "C15": dict(
    text="Flarm::from_record with the REAL cipher on every 26-byte packet, every timestamp and every f64 reference bit pattern (NaN / inf included): a record or an error, no panic; finite numbers; track in [0, 360). Other lengths one harness each. The key schedule is decided where the real code hands the key to the cipher (btea and obscure as recording stubs: table selection by bit 23 of the time, time >> 6, address << 8, seed, mask, word order, for every timestamp and address) and obscure() itself against the reference mixing function for every 64-bit key (kissat). Discrete fields (address, kind, type, flags, GPS status, altitude, recovered plaintext) equal the independent packer's bit slices for every 160-bit block. Position kernels (the private decode_latitude / decode_longitude, called directly): at three concrete references per coordinate EVERY true position in the decodable window decodes to the centre of its 128e-7 degree bucket. Thorough: cipher equivalence with textbook XXTEA per word (kissat), references b and c, more lengths.",
    design_ref="DESIGN.md 3/C15, 7.2",
    note="Trusted: Kani/CBMC; deku model; atan2 contract stub; in the field harnesses the private btea is stubbed to the identity under Kani (natively the plaintext is encrypted by an independent XXTEA encryptor and decrypted by the real code); private kernels reached through the stub-as-accessor trick. Position reconstruction with a symbolic reference is outside (SAT cannot push 2^43 cases through the decoder's float multiplication).",
    technique=TECH + "; differential against an independent packer / XXTEA"),
 "C17": dict(
    text="Inductive step decided by the solver: from ANY UI state satisfying the selection invariant (table sizes 0..=3, all flag values) one arbitrary event (every KeyCode variant, any char, Tick of any width, Error) through the real update()/next()/previous()/home() sliced verbatim from main.rs: no panic, invariant preserved, quit/search/sort/width flags change only as documented. Plus the initial state and all 4-event histories from it.",
    design_ref="DESIGN.md 3/C17",
    note="Trusted: Kani/CBMC; the item slicer; API-subset models of crossterm/ratatui types and of the tokio MutexGuard (jet1090 itself cannot be compiled by Kani). build_table and the event task are outside.",
    technique=TECH + "; one-step induction over a symbolic pre-state"),
 "C18": dict(
    text="Solver verdict over every t in [0, 604800e9) ns for since_gps_week_to_since_today (exact value and range) and every unix time in [GPS epoch, 2^34) for gps_week_in_s (boundary, at most a week before); overflow checks as in the release profile.",
    design_ref="DESIGN.md 3/C18",
    note="Trusted: Kani/CBMC/CaDiCaL. Oracle side uses fresh quotient variables with the division lemma. Unix times >= 2^34 s outside the bound.",
    technique=TECH),
}
REGISTERED = ["C01", "C02", "C03", "C04", "C05", "C06", "C07", "C08", "C11", "C13", "C14", "C15", "C17", "C18"]
NOTES = "See DESIGN.md. Every check is `bin/check <ID> --tier quick|thorough`; exit 2 means undecided (cap hit, vacuity witness missed, or a counterexample that does not reproduce natively) and is never reported as success."
NOT_APPLICABLE = [
 dict(property_id="C09", reason="byte scanner editing a heap Vec in place (position/split_off/splice/drain): three bounded formulations of the sliced loop never left symbolic execution in 25-30 min; next_msg itself names tokio sockets and cannot be compiled by Kani (DESIGN 3/C09)"),
 dict(property_id="C10", reason="state local to one async fn (no inductive step), tokio mpsc crashes Kani, HashMap<Vec<u8>,_> exhausts memory; with both modelled a 3-reception history still does not leave symbolic execution in 30 min (DESIGN 3/C10)"),
 dict(property_id="C12", reason="cheapest inductive-step instance of update_snapshot does not finish in 25 min in two reductions (B-tree search with String keys on the aircraft-database parameter fixed by the real signature); Kani refuses to stub BTreeMap::get (DESIGN 3/C12)"),
 dict(property_id="C16", reason="behaviour under test is that of url::Url / regex::Regex::new on arbitrary patterns / serde untagged enums over unbounded strings; regex does not compile under Kani, nondeterministic stubs would give unrealisable counterexamples, source.rs is not compilable outside the jet1090 binary which does not build under Kani (DESIGN 4)"),
]
# properties designed but whose checks are not built yet are listed as not applicable until their check is registered
PENDING = {
 "C01": "check under construction in this session", "C02": "check under construction", "C03": "check under construction",
 "C04": "check under construction", "C05": "check under construction", "C07": "check under construction",
 "C08": "check under construction", "C11": "check under construction", "C14": "check under construction",
 "C15": "check under construction", "C17": "check under construction",
}
import sys, os
sys.path.insert(0, os.path.join(os.path.dirname(os.path.dirname(os.path.abspath(__file__))), "bin"))
import specs as _s
for _p, _r in sorted(PENDING.items()):
    if _p not in REGISTERED:
        NOT_APPLICABLE.append(dict(property_id=_p, reason="not yet registered: " + _r))

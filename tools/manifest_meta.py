TECH = "bounded model checking of the real code with Kani/CBMC (SAT): symbolic inputs, property as assertion, counterexample replayed natively"
META = {
 "C13": dict(
    text="Solver verdict over ALL 2^13 / 2^12 / 2^16 codes (and all pairs for injectivity / Gray adjacency): the compiled decode_id13, gray2alt, AC13Field::read and decode_ac12 are compared with an independently written Annex-10 Gillham/25-ft reference. Exhaustive in the solver sense within the field widths; unwinding assertions on.",
    design_ref="DESIGN.md 3/C13",
    note="Trusted: Kani/CBMC/CaDiCaL; the bitvec-free deku reader model (validated natively against real deku); oracle written from Annex 10 in harness/src/refs.rs. Metric altitudes (M=1) outside.",
    technique=TECH + "; differential against an independent reference decoder/encoder"),
 "C17": dict(
    text="Inductive step decided by the solver: from ANY UI state satisfying the selection invariant (table sizes 0..=3, all flag values) one arbitrary event (every KeyCode variant, any char, Tick of any width, Error) through the real update()/next()/previous()/home() sliced verbatim from main.rs: no panic, invariant preserved, quit/search/sort/width flags change only as documented. Plus the initial state and all 4-event histories from it.",
    design_ref="DESIGN.md 3/C17",
    note="Trusted: Kani/CBMC; the item slicer; API-subset models of crossterm/ratatui types and of the tokio MutexGuard (jet1090 itself cannot be compiled by Kani). build_table and the event task are outside.",
    technique=TECH + "; one-step induction over a symbolic pre-state"),
 "C18": dict(
    text="Solver verdict over every t in [0, 604800e9) ns for since_gps_week_to_since_today (exact value and range) and every unix time in [GPS epoch, 2^34) for gps_week_in_s (boundary, at most a week before); overflow checks as in the release profile.",
    design_ref="DESIGN.md 3/C18",
    note="Trusted: Kani/CBMC/CaDiCaL. Oracle side uses fresh quotient variables with the division lemma. Unix times >= 2^34 s outside the bound.",
    technique=TECH),
}
REGISTERED = ["C13", "C17", "C18"]
NOTES = "See DESIGN.md. Every check is `bin/check <ID> --tier quick|thorough`; exit 2 means undecided (cap hit, vacuity witness missed, or a counterexample that does not reproduce natively) and is never reported as success."
NOT_APPLICABLE = [
 dict(property_id="C06", reason="smallest useful instance (two reports through the real decode_position with its BTreeMap state) exhausts 24-42 GB in CBMC's propositional reduction in three reductions; state is private and the logic inline, no smaller real unit exists (DESIGN 3/C06)"),
 dict(property_id="C09", reason="byte scanner editing a heap Vec in place (position/split_off/splice/drain): three bounded formulations of the sliced loop never left symbolic execution in 25-30 min; next_msg itself names tokio sockets and cannot be compiled by Kani (DESIGN 3/C09)"),
 dict(property_id="C10", reason="state local to one async fn (no inductive step), tokio mpsc crashes Kani, HashMap<Vec<u8>,_> exhausts memory; with both modelled a 3-reception history still does not leave symbolic execution in 30 min (DESIGN 3/C10)"),
 dict(property_id="C12", reason="cheapest inductive-step instance of update_snapshot does not finish in 25 min in two reductions (B-tree search with String keys on the aircraft-database parameter fixed by the real signature); Kani refuses to stub BTreeMap::get (DESIGN 3/C12)"),
 dict(property_id="C16", reason="behaviour under test is that of url::Url / regex::Regex::new on arbitrary patterns / serde untagged enums over unbounded strings; regex does not compile under Kani, nondeterministic stubs would give unrealisable counterexamples, source.rs is not compilable outside the jet1090 binary which does not build under Kani (DESIGN 4)"),
]
# properties designed but whose checks are not built yet are listed as not applicable until their check is registered
PENDING = {
 "C01": "check under construction in this session", "C02": "check under construction", "C03": "check under construction",
 "C04": "check under construction", "C05": "check under construction", "C07": "check under construction",
 "C08": "check under construction", "C11": "check under construction", "C14": "check under construction",
 "C15": "check under construction", "C17": "check under construction",
}
import sys, os
sys.path.insert(0, os.path.join(os.path.dirname(os.path.dirname(os.path.abspath(__file__))), "bin"))
import specs as _s
for _p, _r in sorted(PENDING.items()):
    if _p not in REGISTERED:
        NOT_APPLICABLE.append(dict(property_id=_p, reason="not yet registered: " + _r))

#!/usr/bin/env python3
"""one-off helper: derive seeded/<id>/meta.json from notes.md (bullets: Change / Manifests / tests miss / Commands)"""
import json, os, re, sys
V = os.path.dirname(os.path.dirname(os.path.abspath(__file__)))
for d in sorted(os.listdir(os.path.join(V, "seeded"))):
    p = os.path.join(V, "seeded", d)
    n = os.path.join(p, "notes.md")
    if not os.path.exists(n):
        continue
    mp = os.path.join(p, "meta.json")
    old = json.load(open(mp)) if os.path.exists(mp) else {}
    txt = open(n).read()
    body = txt.split("\n", 1)[1] if txt.startswith("#") else txt
    bullets = re.split(r"\n- ", "\n" + body.lstrip("\n"))
    bullets = [" ".join(b.split()) for b in bullets if b.strip()]
    def pick(*keys):
        for b in bullets:
            lb = b.lower().replace("*", "")
            if any(lb.startswith(k) for k in keys):
                return b.replace("**", "")
        return ""
    meta = dict(
        id=d, property=d.split("-")[0],
        change=pick("change"),
        needs_to_manifest=pick("manifest", "which inputs"),
        why_tests_miss=pick("why", "existing tests"),
        what_was_run=pick("commands"),
        files=sorted(f for f in os.listdir(p) if f != "meta.json"),
    )
    for k in ("detected_by", "confirmed", "origin"):
        if k in old:
            meta[k] = old[k]
    json.dump(meta, open(mp, "w"), indent=1)
    print(d, {k: len(str(v)) for k, v in meta.items()})

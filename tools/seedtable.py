#!/usr/bin/env python3
"""Markdown table of the seeded changes and what the checks said about them (from seeded/*/meta.json and the
check.<tier>.txt files written by tools/seedrun.sh); also stores the verdict into meta.json ("detected_by")."""
import json, os, re, sys
V = os.path.dirname(os.path.dirname(os.path.abspath(__file__)))
rows = []
for d in sorted(os.listdir(os.path.join(V, "seeded"))):
    p = os.path.join(V, "seeded", d)
    mp = os.path.join(p, "meta.json")
    if not os.path.exists(mp):
        continue
    m = json.load(open(mp))
    det = {}
    for tier in ("quick", "thorough"):
        f = os.path.join(p, f"check.{tier}.txt")
        if not os.path.exists(f):
            continue
        txt = open(f).read()
        ex = re.search(r"exit=(\d+) wall=(\d+)s", txt)
        hs = sorted(set(re.findall(r"violated in (c\d\d::\w+)", txt)))
        und = len(re.findall(r"UNDECIDED", txt))
        det[tier] = dict(exit=int(ex.group(1)) if ex else None, wall_s=int(ex.group(2)) if ex else None, harnesses=hs, undecided=und)
    m["detected_by"] = det
    json.dump(m, open(mp, "w"), indent=1)
    def cell(t):
        if t not in det: return "not run"
        x = det[t]
        if x["exit"] == 1: return "**caught** (%s; %d s)" % (", ".join(h.split("::")[1] for h in x["harnesses"][:4]) + ("…" if len(x["harnesses"]) > 4 else ""), x["wall_s"])
        if x["exit"] == 0: return "missed (exit 0; %d s)" % x["wall_s"]
        return "undecided (exit %s, %d harnesses; %d s)" % (x["exit"], x["undecided"], x["wall_s"])
    ch = m.get("change", "")
    ch = re.sub(r"^-?\s*\**Change\**\s*(\([^)]*\))?:?\s*", "", ch)
    if ch.startswith("#"):
        # notes.md of rounds 4+: "# title ## Change <text>" -> "<title>: <text>"
        m2 = re.match(r"#\s*(.*?)\s*##\s*(?:What the change is|The change|Change|What)\s*(.*)", ch)
        if m2:
            title = re.sub(r"^C\d\d\s*/?\s*(seed|change)?\s*[ABC]?\s*[-—:]*\s*", "", m2.group(1), flags=re.I)
            ch = title + " — " + m2.group(2)
    rows.append("| %s | %s | %s | %s |" % (d, ch[:230].replace("|", "/") + ("…" if len(ch) > 230 else ""), cell("quick"), cell("thorough")))
print("| seed | change (see seeded/<id>/) | quick tier | thorough tier |\n|---|---|---|---|")
print("\n".join(rows))

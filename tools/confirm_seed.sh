#!/bin/bash
# confirm_seed.sh <worktree> : the change compiles, the crate's test-suite passes with it, the demo fails with it and passes without it
W=$1
cd $W || exit 2
export CARGO_NET_OFFLINE=true
PKG=${2:-rs1090}
echo "== $W: test-suite WITH the change"
cargo test -p $PKG --offline --lib 2>&1 | grep -a "^test result\|error\[" | head -3
echo "== demo WITH the change (expected: FAILED)"
cargo test -p $PKG --offline --test seed_demo 2>&1 | grep -a "^test result\|error\[" | head -3
git stash -q
echo "== demo WITHOUT the change (expected: ok)"
cargo test -p $PKG --offline --test seed_demo 2>&1 | grep -a "^test result\|error\[" | head -3
git stash pop -q
git diff --stat | tail -1

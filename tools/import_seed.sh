#!/bin/bash
# import_seed.sh <srcdir with patch.diff seed_demo.rs notes.md> <seed-id>
# confirms a candidate seeded change in a scratch worktree (/tmp/cw) and, if confirmed, stores it under /verif/seeded/<seed-id>
set -u
SRC=$1; ID=$2; W=/tmp/cw
export CARGO_NET_OFFLINE=true
if [ ! -d $W ]; then git -C /repo worktree add -q --detach $W HEAD || exit 2; fi
git -C $W checkout -q -- . ; rm -f $W/crates/rs1090/tests/seed_demo.rs
mkdir -p $W/crates/rs1090/tests; cp $SRC/seed_demo.rs $W/crates/rs1090/tests/seed_demo.rs
cd $W
base=$(cargo test -p rs1090 --offline --test seed_demo 2>&1 | grep -a "^test result\|^error" | head -2 | tr '\n' ' ')
git apply $SRC/patch.diff || { echo "$ID: patch does not apply"; exit 2; }
suite=$(cargo test -p rs1090 --offline --lib 2>&1 | grep -a "^test result\|^error" | head -2 | tr '\n' ' ')
demo=$(cargo test -p rs1090 --offline --test seed_demo 2>&1 | grep -a "^test result\|^error" | head -2 | tr '\n' ' ')
echo "$ID: demo WITHOUT: $base"; echo "$ID: suite WITH: $suite"; echo "$ID: demo WITH: $demo"
ok=1
echo "$base" | grep -q "test result: ok" || ok=0
echo "$suite" | grep -q "test result: ok" || ok=0
echo "$demo" | grep -q "FAILED" || ok=0
git checkout -q -- . ; rm -f crates/rs1090/tests/seed_demo.rs
if [ $ok = 1 ]; then
  mkdir -p /verif/seeded/$ID; cp $SRC/patch.diff $SRC/seed_demo.rs $SRC/notes.md /verif/seeded/$ID/
  python3 - "$ID" "$base" "$suite" "$demo" <<'PY'
import json,sys,re,os
i,base,suite,demo=sys.argv[1:5]
notes=open(f"/verif/seeded/{i}/notes.md").read()
json.dump(dict(id=i,property=i.split("-")[0],change=" ".join(notes.split())[:900],needs="see notes.md",
  confirmed=dict(demo_without_change=base.strip(),suite_with_change=suite.strip(),demo_with_change=demo.strip(),how="tools/import_seed.sh in scratch worktree /tmp/cw: cargo test -p rs1090 --offline --lib / --test seed_demo")),
  open(f"/verif/seeded/{i}/meta.json","w"),indent=1)
PY
  echo "$ID: CONFIRMED"
else echo "$ID: NOT confirmed"; fi

#!/bin/bash
# patchrun.sh <slot> <patch-file> <PROP> [tier] [extra bin/check args] : like seedrun.sh for an arbitrary patch file; prints the result lines
set -u
SLOT=$1; PATCH=$2; PROP=$3; TIER=${4:-quick}; shift; shift; shift; shift || true
WT=/tmp/mw_$SLOT; D=/tmp/vm_$SLOT
if [ ! -d $WT ]; then git -C /repo worktree add -q --detach $WT HEAD || exit 2; fi
git -C $WT checkout -q -- . && git -C $WT clean -qfd -e target
git -C $WT apply $PATCH || { echo "patch does not apply"; exit 2; }
mkdir -p $D
rsync -a --delete --exclude 'target' --exclude 'target*' --exclude 'work' --exclude '.git' --exclude 'evidence' --exclude 'repo' /verif/ $D/
rm -f $D/repo; ln -s $WT $D/repo
mkdir -p $D/work $D/evidence
(cd $D && bin/check $PROP --tier $TIER "$@") > $D/work/patch_$(basename $PATCH).log 2>&1
rc=$?
grep -a "VIOLATION\|KNOWN-FINDING\|UNDECIDED\|violated in\|harnesses discharged" $D/work/patch_$(basename $PATCH).log | cut -c1-300
echo "patchrun $(basename $PATCH) $PROP $TIER exit=$rc"
git -C $WT checkout -q -- .

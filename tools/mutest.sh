#!/bin/bash
# mutest.sh <name> <repo-worktree-with-the-change-applied> <PROPERTY> [extra bin/check args...]
# Runs the checks of /verif (as they are now) against a scratch copy of the repository, without touching /repo:
# a copy of /verif (no build output) is made under /tmp/vm_<name>, its `repo` symlink is pointed at the
# worktree, and bin/check is run there.  Equivalent to `git -C /repo apply patch; bin/check ...; git checkout`.
set -u
NAME=$1; WT=$2; PROP=$3; shift 3
D=/tmp/vm_$NAME
rm -rf $D; mkdir -p $D
rsync -a --exclude 'target' --exclude 'target*' --exclude 'work' --exclude '.git' --exclude 'evidence' /verif/ $D/
rm -f $D/repo; ln -s $WT $D/repo
cd $D && mkdir -p work evidence && bin/check $PROP "$@"
echo "mutest $NAME $PROP exit=$?"

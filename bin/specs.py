"""Harness tables: which harnesses decide which property, in which tier, under which caps.
Times are measured on this 16-core / 62 GB sandbox; `timeout` is >= 3x the measured time."""

MEM_BUDGET_GB = 48


def H(name, tier="quick", timeout=300, mem_gb=2, ulimit_gb=None, bounds="", **kw):
    d = dict(name=name, tier=tier, timeout=timeout, mem_gb=mem_gb, ulimit_gb=ulimit_gb or max(8, 3 * mem_gb), bounds=bounds)
    d.update(kw)
    return d


FMT = "alloc::fmt::format stubbed to an empty String (text of error messages is outside the claim)"
DEKU = ("models/deku: bitvec-free model of the deku 0.18.1 reader runtime (real deku_derive expansions are compiled unchanged); "
        "validated natively against real deku by tools/diffval (sampling, not part of the verdict)")
TRACING = "models/_gen/tracing: tracing 0.1.41 with event! expanding to nothing under cfg(kani)"
REGEX = "models/_gen/regex: Regex::new always Ok, is_match returns a nondeterministic bool under cfg(kani)"
ONCE = "models/_gen/once_cell: single-threaded OnceCell backend under cfg(kani)"
KANI = "Kani 0.68.0 / CBMC 6.11.0 / CaDiCaL soundness; Kani's MIR-to-goto translation of the dev profile with overflow checks on (rs1090's release profile keeps overflow-checks = true)"

SPECS = {}

DIFFVAL = dict(name="validation of the trusted base by sampling (not the verdict): model-deku rs1090 == real-deku rs1090 on structured random frames; recording serializer == serde_json on accepted ones",
               cmd="python3 tools/diffval.py 6000")

SPECS["C01"] = dict(
    prechecks=[DIFFVAL],
    feature="c01",
    functions=["rs1090::decode::bds::bds05..bds65 derived readers and field readers (all 19 payload types, via X::try_from / from_bytes at the offset their caller uses)",
               "rs1090::decode::{AC13Field,IdentityCode}::read, decode_id13, gray2alt", "Display impls of the ADS-B payload types",
               "rs1090::decode::Message::try_from / from_reader_with_ctx, DF::from_reader_with_ctx, ADSB, ME, ControlField, DF20/DF21DataSelector (whole-frame harnesses)"],
    trusted_base=[KANI, DEKU, FMT, TRACING, REGEX, "libm::atan2 / hypot / round replaced by contract stubs (stubs.rs)"],
    bounds="payload harnesses: all 2^56 payload contents per type; whole-frame harnesses: discriminating bytes (byte 0, and byte 4 for DF17/18) concrete, every other bit symbolic; lengths 0..=32; unwind 17 with unwinding assertions",
    outside="the real bit reader (modelled); regex verdict on BDS 2,1 (both outcomes explored); text of error/log messages; Debug rendering; float digit generation",
    assumptions=["ADS-B payload structs read from bit 0 (BDS 0,5/0,6/0,8) get the type-code range their ME dispatcher guarantees (an under-constrained struct-level analysis would report 14 - tc for tc > 14, which no caller can pass); the whole-frame harnesses re-establish that guarantee through Message::try_from"],
    harnesses=[
        H("c01::frame_df0", tier="thorough", timeout=10800, mem_gb=5, ulimit_gb=20, bounds="whole frame through Message::try_from, first byte (and type-code byte) concrete, all other bits symbolic"),
        H("c01::frame_df4", tier="thorough", timeout=10800, mem_gb=5, ulimit_gb=20, bounds="whole frame through Message::try_from, first byte (and type-code byte) concrete, all other bits symbolic"),
        H("c01::frame_df5", tier="thorough", timeout=10800, mem_gb=5, ulimit_gb=20, bounds="whole frame through Message::try_from, first byte (and type-code byte) concrete, all other bits symbolic"),
        H("c01::frame_df11", tier="thorough", timeout=10800, mem_gb=5, ulimit_gb=20, bounds="whole frame through Message::try_from, first byte (and type-code byte) concrete, all other bits symbolic"),
        H("c01::frame_df11_ca0", tier="thorough", timeout=10800, mem_gb=5, ulimit_gb=20, bounds="whole frame through Message::try_from, first byte (and type-code byte) concrete, all other bits symbolic"),
        H("c01::frame_df16", tier="thorough", timeout=10800, mem_gb=5, ulimit_gb=20, bounds="whole frame through Message::try_from, first byte (and type-code byte) concrete, all other bits symbolic"),
        H("c01::frame_df19", tier="thorough", timeout=10800, mem_gb=5, ulimit_gb=20, bounds="whole frame through Message::try_from, first byte (and type-code byte) concrete, all other bits symbolic"),
        H("c01::frame_df24", tier="thorough", timeout=10800, mem_gb=5, ulimit_gb=20, bounds="whole frame through Message::try_from, first byte (and type-code byte) concrete, all other bits symbolic"),
        H("c01::frame_df17_tc00", tier="thorough", timeout=10800, mem_gb=5, ulimit_gb=20, bounds="whole frame through Message::try_from, first byte (and type-code byte) concrete, all other bits symbolic"),
        H("c01::frame_df17_tc04", tier="thorough", timeout=10800, mem_gb=5, ulimit_gb=20, bounds="whole frame through Message::try_from, first byte (and type-code byte) concrete, all other bits symbolic"),
        H("c01::frame_df17_tc07", tier="thorough", timeout=10800, mem_gb=5, ulimit_gb=20, bounds="whole frame through Message::try_from, first byte (and type-code byte) concrete, all other bits symbolic"),
        H("c01::frame_df17_tc11", tier="thorough", timeout=10800, mem_gb=5, ulimit_gb=20, bounds="whole frame through Message::try_from, first byte (and type-code byte) concrete, all other bits symbolic"),
        H("c01::frame_df17_tc19_st1", tier="thorough", timeout=10800, mem_gb=5, ulimit_gb=20, bounds="whole frame through Message::try_from, first byte (and type-code byte) concrete, all other bits symbolic"),
        H("c01::frame_df17_tc19_st0", tier="thorough", timeout=10800, mem_gb=5, ulimit_gb=20, bounds="whole frame through Message::try_from, first byte (and type-code byte) concrete, all other bits symbolic"),
        H("c01::frame_df17_tc28", tier="thorough", timeout=10800, mem_gb=5, ulimit_gb=20, bounds="whole frame through Message::try_from, first byte (and type-code byte) concrete, all other bits symbolic"),
        H("c01::frame_df17_tc29", tier="thorough", timeout=10800, mem_gb=5, ulimit_gb=20, bounds="whole frame through Message::try_from, first byte (and type-code byte) concrete, all other bits symbolic"),
        H("c01::frame_df17_tc31_v0", tier="thorough", timeout=10800, mem_gb=5, ulimit_gb=20, bounds="whole frame through Message::try_from, first byte (and type-code byte) concrete, all other bits symbolic"),
        H("c01::frame_df17_tc31_r2", tier="thorough", timeout=10800, mem_gb=5, ulimit_gb=20, bounds="whole frame through Message::try_from, first byte (and type-code byte) concrete, all other bits symbolic"),
        H("c01::frame_df17_tc23", tier="thorough", timeout=10800, mem_gb=5, ulimit_gb=20, bounds="whole frame through Message::try_from, first byte (and type-code byte) concrete, all other bits symbolic"),
        H("c01::frame_df18_tc11", tier="thorough", timeout=10800, mem_gb=5, ulimit_gb=20, bounds="whole frame through Message::try_from, first byte (and type-code byte) concrete, all other bits symbolic"),
        H("c01::frame_df18_tc19", tier="thorough", timeout=10800, mem_gb=5, ulimit_gb=20, bounds="whole frame through Message::try_from, first byte (and type-code byte) concrete, all other bits symbolic"),
        H("c01::len_df11", tier="thorough", timeout=10800, mem_gb=5, ulimit_gb=20, bounds="whole frame through Message::try_from, first byte (and type-code byte) concrete, all other bits symbolic"),
        H("c01::determinism_df11", tier="thorough", timeout=10800, mem_gb=5, ulimit_gb=20, bounds="whole frame through Message::try_from, first byte (and type-code byte) concrete, all other bits symbolic"),
        H("c01::len_too_short", timeout=1200, mem_gb=3, bounds="any first byte, any content, any length below the prescribed one"),
        H("c01::total_bds05", timeout=900, mem_gb=3, bounds="all 2^56 payloads of BDS 0,5"),
        H("c01::total_bds06", timeout=900, mem_gb=3, bounds="all 2^56 payloads of BDS 0,6"),
        H("c01::total_bds08", timeout=900, mem_gb=3, bounds="all 2^56 payloads of BDS 0,8"),
        H("c01::total_bds09", timeout=900, mem_gb=3, bounds="all 2^56 payloads of BDS 0,9"),
        H("c01::total_bds61", timeout=900, mem_gb=3, bounds="all 2^56 payloads of BDS 6,1"),
        H("c01::total_bds62", timeout=900, mem_gb=3, bounds="all 2^56 payloads of BDS 6,2"),
        H("c01::total_bds65", timeout=900, mem_gb=3, bounds="all 2^56 payloads of BDS 6,5"),
        H("c01::total_bds10", timeout=900, mem_gb=3, bounds="all 2^56 payloads of BDS 1,0"),
        H("c01::total_bds17", timeout=900, mem_gb=3, bounds="all 2^56 payloads of BDS 1,7"),
        H("c01::total_bds18", timeout=900, mem_gb=3, bounds="all 2^56 payloads of BDS 1,8"),
        H("c01::total_bds19", timeout=900, mem_gb=3, bounds="all 2^56 payloads of BDS 1,9"),
        H("c01::total_bds20", timeout=900, mem_gb=3, bounds="all 2^56 payloads of BDS 2,0"),
        H("c01::total_bds21", timeout=1800, mem_gb=12, ulimit_gb=30, bounds="all 2^56 payloads of BDS 2,1"),
        H("c01::total_bds30", timeout=900, mem_gb=3, bounds="all 2^56 payloads of BDS 3,0"),
        H("c01::total_bds40", timeout=900, mem_gb=3, bounds="all 2^56 payloads of BDS 4,0"),
        H("c01::total_bds44", timeout=900, mem_gb=3, bounds="all 2^56 payloads of BDS 4,4"),
        H("c01::total_bds45", timeout=900, mem_gb=3, bounds="all 2^56 payloads of BDS 4,5"),
        H("c01::total_bds50", timeout=900, mem_gb=3, bounds="all 2^56 payloads of BDS 5,0"),
        H("c01::total_bds60", timeout=900, mem_gb=3, bounds="all 2^56 payloads of BDS 6,0"),
        H("c01::total_bds05_commb", timeout=900, mem_gb=3, bounds="BDS 0,5 as Comm-B hypothesis: tc in 9..22 except 19"),
        H("c01::total_bds65_commb", timeout=900, mem_gb=3, bounds="BDS 6,5 as Comm-B hypothesis: tc 31, id < 2"),
        H("c01::render_bds05", tier="thorough", timeout=1800, mem_gb=4, bounds="Display of every accepted BDS 0,5 payload"),
        H("c01::render_bds06", tier="thorough", timeout=1800, mem_gb=4, bounds="Display of every accepted BDS 0,6 payload"),
        H("c01::render_bds08", tier="thorough", timeout=1800, mem_gb=4, bounds="Display of every accepted BDS 0,8 payload"),
        H("c01::render_bds09", tier="thorough", timeout=1800, mem_gb=4, bounds="Display of every accepted BDS 0,9 payload"),
        H("c01::render_bds61", tier="thorough", timeout=1800, mem_gb=4, bounds="Display of every accepted BDS 6,1 payload"),
        H("c01::render_bds62", tier="thorough", timeout=1800, mem_gb=4, bounds="Display of every accepted BDS 6,2 payload"),
        H("c01::render_bds65", tier="thorough", timeout=1800, mem_gb=4, bounds="Display of every accepted BDS 6,5 payload"),
    ],
)

SPECS["C02"] = dict(
    prechecks=[DIFFVAL],
    feature="c02",
    functions=["rs1090::decode::crc::modes_checksum", "rs1090::decode::crc::CRC_TABLE", "rs1090::decode::Message::from_reader_with_ctx (DF17 rejection arm)",
               "rs1090::decode::IcaoParity (map to crc context)", "rs1090::decode::Message::try_from", "DF::from_reader_with_ctx arms 0,4,5,16,17,20,21"],
    trusted_base=[KANI, DEKU, FMT, TRACING],
    bounds="frame lengths 7 and 14 bytes (the only accepted lengths); all 2^56 / 2^112 contents for the checksum; all 112 single-bit, all 6216 double-bit, all (2^24-1) x 89 burst patterns; all 2^24 addresses; unwind 15-26",
    outside="DF17 acceptance gate and end-to-end corruption are decided on type code 0 payloads (gate code does not read the payload); whole-frame DF20/21 address recovery is OUTSIDE (did not finish in 2 h even with an all-zero MB field): for those formats the claim is the composition "
            "icao_parity_is_ctx (the AP field reader reports the crc context) + checksum_long + overlay_checksum (the context is the transmitted address for every frame); e2e errors touching bytes 0/4 are covered at syndrome level only",
    assumptions=["oracle: bit-serial GF(2) division by 0x1FFF409 written from Annex 10 in harness/src/refs.rs (no table)"],
    harnesses=[
        H("c02::table_entries", timeout=120, bounds="all 256 indices"),
        H("c02::table_step", timeout=120, bounds="all 2^24 remainders x 2^8 bytes"),
        H("c02::checksum_long", timeout=600, bounds="all 2^112 frames"),
        H("c02::checksum_short", timeout=300, bounds="all 2^56 frames"),
        H("c02::linear", timeout=600, bounds="all pairs of 112-bit frames"),
        H("c02::err_single", timeout=300, bounds="all 112 positions"),
        H("c02::err_double", timeout=600, bounds="all 6216 pairs"),
        H("c02::err_burst", timeout=900, bounds="all non-zero 24-bit patterns at all 89 offsets"),
        H("c02::icao_parity_is_ctx", timeout=300, bounds="all 24-bit AP fields x all u32 contexts"),
        H("c02::gate_df17", tier="thorough", timeout=7200, mem_gb=4, bounds="byte0 = 0x8d, type code 0, 96 symbolic bits"),
        H("c02::gate_df17_all_ca", tier="thorough", timeout=14400, mem_gb=6, bounds="byte0 = 0x88..0x8f, type code 0"),
        H("c02::e2e_corruption", tier="thorough", timeout=7200, mem_gb=12, ulimit_gb=30, bounds="valid DF17 tc=0 frame x {1-bit, 2-bit, burst<=24} outside bytes 0 and 4"),
        H("c02::overlay_checksum", timeout=600, bounds="all payloads x all 2^24 addresses, both lengths"),
        H("c02::ap_df0", tier="thorough", timeout=7200, mem_gb=4, bounds="byte0 = 0x02; 24 symbolic payload bits; all addresses"),
        H("c02::ap_df4", tier="thorough", timeout=7200, mem_gb=4, bounds="byte0 = 0x20"),
        H("c02::ap_df5", tier="thorough", timeout=7200, mem_gb=4, bounds="byte0 = 0x28"),
        H("c02::ap_df4_fs5", tier="thorough", timeout=7200, mem_gb=4, bounds="byte0 = 0x25"),
        H("c02::ap_df5_fs7", tier="thorough", timeout=7200, mem_gb=4, bounds="byte0 = 0x2f"),
        H("c02::ap_df16", tier="thorough", timeout=7200, mem_gb=4, bounds="byte0 = 0x80; 80 symbolic payload bits"),
    ],
)

SPECS["C03"] = dict(
    prechecks=[DIFFVAL],
    feature="c03",
    functions=["field readers of rs1090::decode::bds::{bds05,bds06,bds08,bds09,bds20,bds40,bds50,bds60,bds62}", "rs1090::decode::ICAO reader", "callsign_read / CHAR_LOOKUP", "read_groundspeed (BDS 0,6 movement)"],
    trusted_base=[KANI, DEKU, FMT, TRACING, "libm::atan2 / hypot replaced by contract stubs WITH GHOST STATE (arguments and results recorded): argument order, signs, scale and wrap of BDS 0,9 track/speed are inside the check, only libm's numerical quality is trusted"],
    bounds="all 2^56 payloads per type: every code of every field at once (not the <= 2^22 sweep the property text settles for); unwind 17",
    outside="altitude and squawk values (decided exhaustively under C13); DF20 'BDS05 only if alt == AC' gate and the position of AA in the frame (whole-frame harnesses, thorough tier of C01); Comm-B registers are compared only when the register's plausibility filters accept the payload; sentinel 'not available' codes",
    assumptions=["oracle: field positions and scale factors written from DO-260B / Annex 10 vol. IV in harness/src/c03.rs (bit numbers are the standard's 1-based ME bit numbers)"],
    harnesses=[
        H("c03::callsign_bds08", tier="thorough", timeout=3600, mem_gb=12, ulimit_gb=30, bounds="all 2^56 payloads (every code of every field simultaneously)"),
        H("c03::callsign_bds20", tier="thorough", timeout=3600, mem_gb=12, ulimit_gb=30, bounds="all 2^56 payloads (every code of every field simultaneously)"),
        H("c03::bds09_fields", tier="quick", timeout=1800, mem_gb=5, ulimit_gb=None, bounds="all 2^56 payloads (every code of every field simultaneously)"),
        H("c03::bds06_fields", tier="quick", timeout=900, mem_gb=3, ulimit_gb=None, bounds="all 2^56 payloads (every code of every field simultaneously)"),
        H("c03::bds05_fields", tier="quick", timeout=900, mem_gb=3, ulimit_gb=None, bounds="all 2^56 payloads (every code of every field simultaneously)"),
        H("c03::bds62_fields", tier="quick", timeout=1200, mem_gb=4, ulimit_gb=None, bounds="all 2^56 payloads (every code of every field simultaneously)"),
        H("c03::bds40_fields", tier="quick", timeout=1200, mem_gb=4, ulimit_gb=None, bounds="all 2^56 payloads (every code of every field simultaneously)"),
        H("c03::bds50_fields", tier="quick", timeout=1200, mem_gb=4, ulimit_gb=None, bounds="all 2^56 payloads (every code of every field simultaneously)"),
        H("c03::bds60_fields", tier="quick", timeout=1200, mem_gb=4, ulimit_gb=None, bounds="all 2^56 payloads (every code of every field simultaneously)"),
        H("c03::icao_field", tier="quick", timeout=300, mem_gb=2, ulimit_gb=None, bounds="all 2^56 payloads (every code of every field simultaneously)"),
    ],
)

SPECS["C04"] = dict(
    prechecks=[DIFFVAL],
    feature="c04", feature_thorough="c04lon",
    functions=["rs1090::decode::cpr::airborne_position", "rs1090::decode::cpr::nl", "rs1090::decode::cpr::modulo", "libm::floor",
               "rs1090::decode::bds::bds05::AirbornePosition::try_from (to obtain the reports)"],
    trusted_base=[KANI, DEKU, FMT, "CBMC's IEEE-754 double-precision bit-blasting (no float is abstracted)",
                  "tools/gen.py: NL transition latitudes from the closed formula of DO-260B A.1.7.2.d (oracle side), representative latitude per NL band"],
    bounds="17-bit counts (all values); latitude stage: every cell-consistent pair of extended counts in [-90, 90]; longitude stage: every cell-consistent pair of extended longitude counts, at ONE representative latitude per NL band (59 bands x 2 report orders, plus southern instances); unwind 60 (NL table scan)",
    outside="longitude exactness at other latitudes of the same band (by inspection the longitude stage reads the latitude only through nl(lat)); |lat| within 1e-9 of an NL transition latitude (oracle does not decide NL there)",
    assumptions=["cell model of the CPR encoder (DO-260B A.1.7.3): extended count E = floor(x/D * 2^17 + 1/2); two reports come from one point iff their half-open cells intersect",
                 "decoder is right iff it returns the centre of the later report's cell (every point of a cell is within 2.6 m of the centre), tolerance 1e-9 degrees"],
    harnesses=[
    ] + [H("c04::lat_%s%02d_%s_last" % (hm, z, o), tier=("quick" if (hm, z) in (("n", 0), ("n", 7), ("n", 14), ("s", 0), ("s", 14)) else "thorough"), timeout=3600, mem_gb=4,
           bounds="even count in latitude zone %d (%s), odd count any; cells intersecting within [-90, 90]" % (z, "north" if hm == "n" else "south"))
         for hm in ("n", "s") for z in range(15) for o in ("even", "odd")] + [
        H("c04::nl_table_vs_formula", timeout=1800, mem_gb=3, bounds="every even-report cell latitude in [-90, 90] (30 x 2^17 points)"),
        H("c04::same_parity_none", timeout=600, mem_gb=2, bounds="all 2^68 count combinations x 2 parities"),
        H("c04::range_any_pair", timeout=3600, mem_gb=6, bounds="all 2^68 count combinations x 2 orders"),
    ] + [H("c04::lon_nl%02d_%s_last" % (n, o), tier=("quick" if n in (1, 2, 30, 59) else "thorough"), timeout=5400, mem_gb=4, bounds="NL = %d, F0 in [0, %d*2^17], F1 in [0, %d*2^17], cells intersecting" % (n, n, max(n - 1, 1)))
         for n in range(1, 60) for o in ("even", "odd")]
      + [H("c04::lon_south_nl%02d_%s_last" % (n, o), tier="thorough", timeout=5400, mem_gb=4, bounds="NL = %d, southern hemisphere" % n)
         for n in (1, 2, 30, 59) for o in ("even", "odd")],
)

SPECS["C05"] = dict(
    prechecks=[DIFFVAL],
    feature="c05", feature_thorough="c05lon",
    functions=["rs1090::decode::cpr::airborne_position_with_reference", "rs1090::decode::cpr::surface_position_with_reference", "rs1090::decode::cpr::nl", "libm::floor", "libm::fabs",
               "AirbornePosition::try_from / SurfacePosition::try_from (to obtain the reports)"],
    trusted_base=[KANI, DEKU, FMT, "CBMC's IEEE-754 double-precision bit-blasting", "tools/gen.py NL transition latitudes (closed formula) and representative latitude per NL band"],
    bounds="stays-near: ALL finite f64 references x all 2^34 count pairs x both parities, airborne and surface; exactness: every true latitude cell with every reference within 0.95 of half a zone; longitude exactness per NL band at one representative latitude (4 bands in quick, all 59 x 2 parities x 2 encodings in thorough); unwind 60",
    outside="that the 180 NM / 45 NM disc lies inside the +-0.95 half-zone box is a geometric fact about the NL table, assumed; longitude exactness at other latitudes of a band (the code reads the latitude only through nl(lat)); latitudes within 1e-9 of an NL transition",
    assumptions=["cell model of the CPR encoder as in C04", "reference offsets are quantified as a box in (lat, lon), not as a great-circle disc"],
    harnesses=[
        H("c05::near_airborne", timeout=1200, mem_gb=3, bounds="all finite references, all counts, both parities"),
        H("c05::near_surface", timeout=1200, mem_gb=3, bounds="all finite references, all counts, both parities"),
        H("c05::lat_air_even", timeout=3600, mem_gb=4, bounds="all cells in [-90, 90], reference within 0.475 Dlat"),
        H("c05::lat_air_odd", timeout=3600, mem_gb=4, bounds="same, odd"),
        H("c05::lat_surf_even", timeout=3600, mem_gb=4, bounds="surface encoding, even"),
        H("c05::lat_surf_odd", timeout=3600, mem_gb=4, bounds="surface encoding, odd"),
    ] + [H("c05::lon_%s_%s_nl%02d" % (e, p, n), tier=("quick" if n in (1, 2, 30, 59) else "thorough"), timeout=3600, mem_gb=4,
           bounds="NL = %d, every longitude cell, reference within 0.475 of a zone in both coordinates, both sides of the wrap" % n)
         for e in ("air", "surf") for p in ("even", "odd") for n in range(1, 60)],
)

SPECS["C07"] = dict(
    prechecks=[DIFFVAL],
    feature="c07",
    functions=["derived Serialize of Message, DF, ADSB, ME, ControlField, DF20/DF21DataSelector and every BDS struct", "hand-written Serialize of ICAO, IcaoParity, IdentityCode, AirspeedSubsonic/SupersonicDecoding",
               "serde::__private::ser::{FlatMapSerializer, TaggedSerializer} (the real serde machinery that rejects non-flattenable shapes)", "TimedMessage Serialize, as_hex (hex::encode)"],
    trusted_base=[KANI, DEKU, FMT + " — except hex6_real_format, which runs the real formatter", "harness/src/recser.rs: structure-recording serde::Serializer (same accept/reject structure as serde_json for maps/structs/flatten; validated natively against serde_json by tools/diffval)",
                  "libm::atan2/hypot contract stubs"],
    bounds="payload level: all 2^56 payloads per type (every subtype / version / reserved shape is a symbolic choice inside the harness); top level: records constructed around every accepted payload with all header fields and addresses symbolic; unwind 17-30",
    outside="serde_json's digit generation and string escaping (the recorder checks finiteness and control characters instead); which field feeds icao24 is identified by value capture, its hex text by hex6_real_format (composition); decoding the hex again gives the same fields = C01 determinism",
    assumptions=["key clashes are checked per JSON object with the flattened keys merged into their parent, as serde_json would emit them"],
    harnesses=[
        H("c07::ser_me_bds05", timeout=1800, mem_gb=4, bounds="all 2^56 payloads of BDS 0,5 wrapped in ME (tag bds)"),
        H("c07::ser_me_bds06", timeout=1800, mem_gb=4, bounds="all 2^56 payloads of BDS 0,6 wrapped in ME (tag bds)"),
        H("c07::ser_me_bds09", timeout=1800, mem_gb=4, bounds="all 2^56 payloads of BDS 0,9 wrapped in ME (tag bds)"),
        H("c07::ser_me_bds61", timeout=1800, mem_gb=4, bounds="all 2^56 payloads of BDS 6,1 wrapped in ME (tag bds)"),
        H("c07::ser_me_bds62", timeout=1800, mem_gb=4, bounds="all 2^56 payloads of BDS 6,2 wrapped in ME (tag bds)"),
        H("c07::ser_me_bds65", timeout=1800, mem_gb=4, bounds="all 2^56 payloads of BDS 6,5 wrapped in ME (tag bds)"),
        H("c07::ser_me_bds08", tier="thorough", timeout=3600, mem_gb=12, ulimit_gb=30, bounds="all 2^56 payloads of BDS 0,8 wrapped in ME"),
        H("c07::ser_me_other", timeout=900, mem_gb=3, bounds="type codes 0, 23, 24, 25-27, 30 with arbitrary payload bits"),
        H("c07::ser_bds10", timeout=1800, mem_gb=4, bounds="all 2^56 payloads, Comm-B register 1,0"),
        H("c07::ser_bds17", timeout=1800, mem_gb=4, bounds="all 2^56 payloads, Comm-B register 1,7"),
        H("c07::ser_bds18", timeout=1800, mem_gb=4, bounds="all 2^56 payloads, Comm-B register 1,8"),
        H("c07::ser_bds19", timeout=1800, mem_gb=4, bounds="all 2^56 payloads, Comm-B register 1,9"),
        H("c07::ser_bds30", timeout=1800, mem_gb=4, bounds="all 2^56 payloads, Comm-B register 3,0"),
        H("c07::ser_bds40", timeout=1800, mem_gb=4, bounds="all 2^56 payloads, Comm-B register 4,0"),
        H("c07::ser_bds44", timeout=1800, mem_gb=4, bounds="all 2^56 payloads, Comm-B register 4,4"),
        H("c07::ser_bds45", timeout=1800, mem_gb=4, bounds="all 2^56 payloads, Comm-B register 4,5"),
        H("c07::ser_bds50", timeout=1800, mem_gb=4, bounds="all 2^56 payloads, Comm-B register 5,0"),
        H("c07::ser_bds60", timeout=1800, mem_gb=4, bounds="all 2^56 payloads, Comm-B register 6,0"),
        H("c07::ser_bds20", tier="thorough", timeout=3600, mem_gb=14, ulimit_gb=34, bounds="all 2^56 payloads, Comm-B register 2,0 (string-valued)"),
        H("c07::ser_bds21", tier="thorough", timeout=3600, mem_gb=14, ulimit_gb=34, bounds="all 2^56 payloads, Comm-B register 2,1 (string-valued)"),
        H("c07::hex6_real_format", timeout=1200, mem_gb=4, bounds="all 2^24 addresses through the REAL format machinery, ICAO and IcaoParity"),
        H("c07::top_short", timeout=1800, mem_gb=4, bounds="DF 0/4/5/11 records, all header fields and addresses symbolic"),
        H("c07::top_adsb_bds05", tier="thorough", timeout=3600, mem_gb=6, bounds="DF17 and DF18 record around every accepted BDS 0,5 payload"),
        H("c07::top_adsb_bds06", tier="thorough", timeout=3600, mem_gb=6, bounds="DF17 and DF18 record around every accepted BDS 0,6 payload"),
        H("c07::top_adsb_bds09", tier="thorough", timeout=3600, mem_gb=6, bounds="DF17 and DF18 record around every accepted BDS 0,9 payload"),
        H("c07::top_adsb_bds61", tier="thorough", timeout=3600, mem_gb=6, bounds="DF17 and DF18 record around every accepted BDS 6,1 payload"),
        H("c07::top_adsb_bds62", tier="thorough", timeout=3600, mem_gb=6, bounds="DF17 and DF18 record around every accepted BDS 6,2 payload"),
        H("c07::top_adsb_bds65", tier="thorough", timeout=3600, mem_gb=6, bounds="DF17 and DF18 record around every accepted BDS 6,5 payload"),
        H("c07::top_adsb_bds08", tier="thorough", timeout=3600, mem_gb=14, ulimit_gb=34, bounds="DF17 and DF18 record around every accepted BDS 0,8 payload"),
        H("c07::top_long_headers", timeout=1800, mem_gb=4, bounds="DF 16/20/21 (empty selector) / 19 / 24 records, symbolic headers"),
        H("c07::top_commb_bds10", tier="thorough", timeout=3600, mem_gb=6, bounds="DF20 and DF21 record whose selector holds every accepted register 1,0"),
        H("c07::top_commb_bds17", tier="thorough", timeout=3600, mem_gb=6, bounds="DF20 and DF21 record whose selector holds every accepted register 1,7"),
        H("c07::top_commb_bds30", tier="thorough", timeout=3600, mem_gb=6, bounds="DF20 and DF21 record whose selector holds every accepted register 3,0"),
        H("c07::top_commb_bds40", tier="thorough", timeout=3600, mem_gb=6, bounds="DF20 and DF21 record whose selector holds every accepted register 4,0"),
        H("c07::top_commb_bds44", tier="thorough", timeout=3600, mem_gb=6, bounds="DF20 and DF21 record whose selector holds every accepted register 4,4"),
        H("c07::top_commb_bds45", tier="thorough", timeout=3600, mem_gb=6, bounds="DF20 and DF21 record whose selector holds every accepted register 4,5"),
        H("c07::top_commb_bds50", tier="thorough", timeout=3600, mem_gb=6, bounds="DF20 and DF21 record whose selector holds every accepted register 5,0"),
        H("c07::top_commb_bds60", tier="thorough", timeout=3600, mem_gb=6, bounds="DF20 and DF21 record whose selector holds every accepted register 6,0"),
        H("c07::top_commb_bds05", tier="thorough", timeout=3600, mem_gb=6, bounds="DF20 and DF21 record whose selector holds every accepted register 0,5"),
        H("c07::top_commb_bds20", tier="thorough", timeout=3600, mem_gb=14, ulimit_gb=34, bounds="DF20/DF21 with every accepted BDS 2,0"),
        H("c07::timed_frame", timeout=1200, mem_gb=4, bounds="TimedMessage with any 7- or 14-byte frame"),
    ],
)

SPECS["C08"] = dict(
    prechecks=[DIFFVAL],
    feature="c08",
    functions=["rs1090::decode::bds::{bds05,bds06,bds08,bds09,bds20,bds21,bds40,bds44,bds45,bds50,bds60,bds61,bds62} readers (same entry points as C01(a))",
               "squawk / 13-bit altitude of DF 4/5/20/21 headers: IdentityCode::read, AC13Field::read (decided for all 2^13 codes under C13)"],
    trusted_base=[KANI, DEKU, FMT, TRACING, REGEX, "libm::atan2 -> contract stub: result in [-pi, pi], sign/quadrant as IEEE atan2, |result| >= 2^-12 or 0 (the wrap logic of BDS 0,9 track is therefore decided for every angle libm can return on the +-1022 grid, and more)", "libm::hypot -> contract stub (max(|x|,|y|) <= r <= |x|+|y|)"],
    bounds="all 2^56 payload contents per type; unwind 17",
    outside="numerical quality of libm::atan2/hypot; positions (latitude/longitude are None until CPR decoding: C04/C05)",
    assumptions=["BDS 0,5/0,6/0,8 type codes assumed in the range their ME dispatcher guarantees"],
    harnesses=[
        H("c08::range_bds05", tier="quick", timeout=600, mem_gb=3, ulimit_gb=None, bounds="all 2^56 payloads of BDS 0,5"),
        H("c08::range_bds06", tier="quick", timeout=600, mem_gb=3, ulimit_gb=None, bounds="all 2^56 payloads of BDS 0,6"),
        H("c08::range_bds08", tier="quick", timeout=1800, mem_gb=10, ulimit_gb=30, bounds="all 2^56 payloads of BDS 0,8"),
        H("c08::range_bds09", tier="quick", timeout=900, mem_gb=4, ulimit_gb=None, bounds="all 2^56 payloads of BDS 0,9"),
        H("c08::range_bds61", tier="quick", timeout=600, mem_gb=3, ulimit_gb=None, bounds="all 2^56 payloads of BDS 6,1"),
        H("c08::range_bds62", tier="quick", timeout=900, mem_gb=4, ulimit_gb=None, bounds="all 2^56 payloads of BDS 6,2"),
        H("c08::range_bds20", tier="quick", timeout=1800, mem_gb=10, ulimit_gb=30, bounds="all 2^56 payloads of BDS 2,0"),
        H("c08::range_bds21", tier="thorough", timeout=2400, mem_gb=14, ulimit_gb=34, bounds="all 2^56 payloads of BDS 2,1"),
        H("c08::range_bds40", tier="quick", timeout=900, mem_gb=4, ulimit_gb=None, bounds="all 2^56 payloads of BDS 4,0"),
        H("c08::range_bds44", tier="quick", timeout=900, mem_gb=4, ulimit_gb=None, bounds="all 2^56 payloads of BDS 4,4"),
        H("c08::range_bds45", tier="quick", timeout=900, mem_gb=4, ulimit_gb=None, bounds="all 2^56 payloads of BDS 4,5"),
        H("c08::range_bds50", tier="quick", timeout=900, mem_gb=4, ulimit_gb=None, bounds="all 2^56 payloads of BDS 5,0"),
        H("c08::range_bds60", tier="quick", timeout=900, mem_gb=4, ulimit_gb=None, bounds="all 2^56 payloads of BDS 6,0"),
    ],
)

SPECS["C11"] = dict(
    feature="c11",
    functions=["jet1090::filters::Filters::is_in", "Filters::aircraft_in", "Filters::df_in (crates/jet1090/src/filters.rs included whole via #[path], unchanged)"],
    trusted_base=[KANI, FMT],
    bounds="filter lists of length 0, 1, 2 (the code only calls contains / is_empty); df labels over {0,4,5,11,16,17,18,19,20,21,24,99}; every 24-bit address in record and filters; unwind 8",
    outside="longer filter lists; records are constructed from symbolic public fields (a superset of the decodable records, with the decode invariant ap == crc of the AP formats assumed — decided under C02); that the JSON shows the same df/address fields is C07",
    assumptions=["displayed address = AA (DF11/17/18) or AP-recovered address (DF0/4/5/16/20/21); displayed df = the decimal downlink format"],
    harnesses=[
        H("c11::df0", timeout=900, mem_gb=3, bounds="DF0 record with symbolic addresses/fields; filters: absent/empty/1/2 entries, 12 labels, arbitrary 24-bit addresses"),
        H("c11::df4", timeout=900, mem_gb=3, bounds="DF4 record with symbolic addresses/fields; filters: absent/empty/1/2 entries, 12 labels, arbitrary 24-bit addresses"),
        H("c11::df5", timeout=900, mem_gb=3, bounds="DF5 record with symbolic addresses/fields; filters: absent/empty/1/2 entries, 12 labels, arbitrary 24-bit addresses"),
        H("c11::df11", timeout=900, mem_gb=3, bounds="DF11 record with symbolic addresses/fields; filters: absent/empty/1/2 entries, 12 labels, arbitrary 24-bit addresses"),
        H("c11::df16", timeout=900, mem_gb=3, bounds="DF16 record with symbolic addresses/fields; filters: absent/empty/1/2 entries, 12 labels, arbitrary 24-bit addresses"),
        H("c11::df17", timeout=900, mem_gb=3, bounds="DF17 record with symbolic addresses/fields; filters: absent/empty/1/2 entries, 12 labels, arbitrary 24-bit addresses"),
        H("c11::df18", timeout=900, mem_gb=3, bounds="DF18 record with symbolic addresses/fields; filters: absent/empty/1/2 entries, 12 labels, arbitrary 24-bit addresses"),
        H("c11::df20", timeout=900, mem_gb=3, bounds="DF20 record with symbolic addresses/fields; filters: absent/empty/1/2 entries, 12 labels, arbitrary 24-bit addresses"),
        H("c11::df21", timeout=900, mem_gb=3, bounds="DF21 record with symbolic addresses/fields; filters: absent/empty/1/2 entries, 12 labels, arbitrary 24-bit addresses"),
        H("c11::undecoded_never_kept", timeout=600, mem_gb=2, bounds="message: None x every configuration"),
    ],
)

SPECS["C13"] = dict(
    prechecks=[DIFFVAL],
    feature="c13",
    functions=["rs1090::decode::decode_id13", "rs1090::decode::gray2alt", "rs1090::decode::AC13Field::read",
               "rs1090::decode::IdentityCode::read", "rs1090::decode::bds::bds05::decode_ac12 (via AirbornePosition::try_from)"],
    trusted_base=[KANI, DEKU, FMT],
    bounds="exhaustive by solver: all 2^13 AC codes with M=0, all 2^12 ME altitude codes, all 2^16 arguments of gray2alt (pairs: 2^32), all 2^13 identity codes; unwind 17",
    outside="metric altitudes (M = 1); 0 ft is indistinguishable from 'unavailable' in the u16 report and is accepted as either",
    assumptions=["oracle: Annex 10 Gillham/25-ft definitions written independently in harness/src/refs.rs and c13.rs"],
    harnesses=[
        H("c13::ac13_oracle", timeout=300, bounds="code < 2^13, M = 0"),
        H("c13::ac12_oracle", timeout=300, bounds="code < 2^12"),
        H("c13::ac13_ac12_agree", timeout=300, bounds="code < 2^13, M = 0"),
        H("c13::gray2alt_oracle", timeout=120, bounds="all u16"),
        H("c13::gray2alt_injective", timeout=120, bounds="all pairs of u16"),
        H("c13::gray2alt_gray_sequence", timeout=120, bounds="all pairs of u16"),
        H("c13::gray2alt_onto", timeout=120, bounds="steps 0..=1266"),
        H("c13::id13_permutation", timeout=120, bounds="all pairs of 13-bit fields"),
        H("c13::squawk_oracle", timeout=120, bounds="all 2^13 identity fields"),
    ],
)

SPECS["C14"] = dict(
    feature="c14",
    functions=["rs1090::data::tail::n_reg", "rs1090::data::tail::n_letters", "rs1090::data::tail::n_letter", "rs1090::data::tail::ja_reg", "rs1090::data::tail::hl_reg"],
    trusted_base=[KANI, FMT + " (n_reg, hl_reg and the disjointness harness; ja_reg runs with its real string building)",
                  "tools/gen.py: ordered address-block table extracted from /repo/crates/rs1090/data/patterns.json at check time"],
    bounds="all 2^32 arguments (the property asks for 2^24 plus out-of-range values); unwind 12-30; country table scan 201 entries",
    outside="PARTIAL CLAIM: numeric_reg and stride_reg (Lazy tables of 39 mappings built during symbolic execution: no answer in 30 min), hence tail() as a whole, injectivity of n_reg/hl_reg strings (need the real format!) and across the stride ranges, aircraft_information's serde_json/regex lookup",
    assumptions=["country of an address = FIRST block of patterns.json containing it (what aircraft_information does)"],
    harnesses=[
        H("c14::ja_total_inverse", timeout=1200, mem_gb=4, bounds="all u32; real strings"),
        H("c14::n_total", timeout=1200, mem_gb=4, bounds="all u32; format! stubbed"),
        H("c14::hl_total", timeout=600, mem_gb=3, bounds="all u32; format! stubbed"),
        H("c14::schemes_disjoint", timeout=1800, mem_gb=6, bounds="all u32; format! stubbed"),
    ],
)

SPECS["C15"] = dict(
    prechecks=[DIFFVAL],
    feature="c15",
    functions=["rs1090::decode::flarm::Flarm::from_record", "derived Flarm reader", "Flarm::decode_btea", "btea", "mx", "fixk", "make_key", "obscure",
               "Flarm::decode_latitude", "decode_longitude", "decode_actype", "decode_groundspeed", "decode_track", "magic_value", "Address reader"],
    trusted_base=[KANI, DEKU, FMT, "libm::atan2 -> contract stub (range, sign, quadrant, octant, magnitude floor)",
                  "field / length harnesses: rs1090::decode::flarm::btea stubbed to the identity under Kani (natively the plaintext is encrypted by the harness' independent XXTEA encryptor and decrypted by the real code)"],
    bounds="packet lengths 0,3,4,19,25,26,27,40 (one harness each; 26 with the real cipher), every content, every u32 timestamp, every f64 reference bit pattern; fields: every 160-bit plaintext block, 24-bit address, finite reference on the globe, true position within (0x40000-2)*128e-7 deg lat / (0x80000-2)*128e-7 deg lon of the reference; cipher equivalence per word with kissat (thorough); unwind 30-46",
    outside="other packet lengths; numerical quality of libm::atan2; sqrt is CBMC's IEEE model",
    assumptions=["packer/encryptor written from the public FLARM v6 packet description and textbook XXTEA (Wheeler & Needham), 6 rounds, n = 5"],
    harnesses=[
        H("c15::total_len26", timeout=2400, mem_gb=6, bounds="26 bytes, real cipher"),
        H("c15::total_len00", timeout=600, mem_gb=3, bounds="length 0"),
        H("c15::total_len03", timeout=600, mem_gb=3, bounds="length 3"),
        H("c15::total_len25", timeout=900, mem_gb=3, bounds="length 25"),
        H("c15::total_len04", tier="thorough", timeout=600, mem_gb=3, bounds="length 4"),
        H("c15::total_len19", tier="thorough", timeout=900, mem_gb=3, bounds="length 19"),
        H("c15::total_len27", tier="thorough", timeout=2400, mem_gb=6, bounds="length 27"),
        H("c15::total_len40", tier="thorough", timeout=2400, mem_gb=6, bounds="length 40"),
        H("c15::fields_discrete", timeout=2400, mem_gb=6, bounds="every 160-bit plaintext block, address, timestamp, address kind; reference fixed"),
        H("c15::position_lat", timeout=2400, mem_gb=5, bounds="every reference latitude in [-90, 90], every true latitude within (0x40000-2)*128e-7 deg of it, every altitude bits"),
        H("c15::position_lon", timeout=2400, mem_gb=5, bounds="every reference longitude in [-180, 180], every true longitude within (0x80000-2)*128e-7 deg of it"),
    ] + [H("c15::cipher_word%d" % i, tier="thorough", timeout=7200, mem_gb=6, bounds="every 160-bit ciphertext, timestamp, address; word %d" % i) for i in range(5)],
)

SPECS["C17"] = dict(
    feature="c17",
    functions=["jet1090::update (sliced verbatim from crates/jet1090/src/main.rs)", "jet1090::Jet1090::next", "jet1090::Jet1090::previous", "jet1090::Jet1090::home",
               "struct Jet1090, enum SortKey (main.rs), enum Event (tui.rs)"],
    trusted_base=[KANI, "tools/gen.py item slicer (brace matching, bodies copied verbatim, fails if an item is missing)",
                  "harness/src/c17.rs models of crossterm KeyCode/KeyEvent and ratatui TableState/ScrollbarState (API subset: select/selected/position) and of tokio MutexGuard (Deref/DerefMut)"],
    bounds="table sizes 0..=3; one event from ANY invariant-satisfying state (inductive step, covers histories of any length); bounded histories of 4 events from the initial state; every KeyCode variant, arbitrary char, arbitrary tick width; unwind 6",
    outside="build_table (recomputes items), the event task, terminal drawing; KeyModifiers/KeyEventKind are not read by update()",
    assumptions=["invariant: selected = Some(i) with (len = 0 and i = 0) or i < len — established by init, preserved by step"],
    harnesses=[
        H("c17::step", timeout=300, bounds="sizes 0..=3, any flags, one event"),
        H("c17::init", timeout=120, bounds="sizes 0..=3"),
        H("c17::seq4", timeout=900, bounds="sizes 0..=3, 4 events"),
    ],
)

SPECS["C18"] = dict(
    feature="c18",
    functions=["rs1090::decode::time::since_gps_week_to_since_today", "rs1090::decode::time::gps_week_in_s"],
    trusted_base=[KANI],
    bounds="t in [0, 604800e9) ns (all values); unix time in [315964800, 2^34) s (year 1980..2514)",
    outside="unix times >= 2^34 s; now_in_s()/SystemTime (callers)",
    assumptions=["oracle arithmetic uses fresh quotient variables constrained by the division lemma (a = q*d + r, r < d) instead of a symbolic % on the oracle side"],
    harnesses=[
        H("c18::tow_exact", timeout=120, bounds="t < 604800e9"),
        H("c18::week_start", timeout=600, bounds="315964800 <= s < 2^34"),
    ],
)


def select(pid, hs, tier, seed):
    """seed-dependent choice of instances for the quick tier (verdicts do not depend on it)"""
    return hs

"""Harness tables: which harnesses decide which property, in which tier, under which caps.
Times are measured on this 16-core / 62 GB sandbox; `timeout` is >= 3x the measured time."""

MEM_BUDGET_GB = 48


def H(name, tier="quick", timeout=300, mem_gb=2, ulimit_gb=None, bounds="", **kw):
    d = dict(name=name, tier=tier, timeout=timeout, mem_gb=mem_gb, ulimit_gb=ulimit_gb or max(8, 3 * mem_gb), bounds=bounds)
    d.update(kw)
    return d


FMT = "alloc::fmt::format stubbed to an empty String (text of error messages is outside the claim)"
DEKU = ("models/deku: bitvec-free model of the deku 0.18.1 reader runtime (real deku_derive expansions are compiled unchanged); "
        "validated natively against real deku by tools/diffval (sampling, not part of the verdict)")
TRACING = "models/_gen/tracing: tracing 0.1.41 with event! expanding to nothing under cfg(kani)"
REGEX = "models/_gen/regex: Regex::new always Ok, is_match returns a nondeterministic bool under cfg(kani)"
ONCE = "models/_gen/once_cell: single-threaded OnceCell backend under cfg(kani)"
KANI = "Kani 0.68.0 / CBMC 6.11.0 / CaDiCaL soundness; Kani's MIR-to-goto translation of the dev profile with overflow checks on (rs1090's release profile keeps overflow-checks = true)"

SPECS = {}

SPECS["C13"] = dict(
    feature="c13",
    functions=["rs1090::decode::decode_id13", "rs1090::decode::gray2alt", "rs1090::decode::AC13Field::read",
               "rs1090::decode::IdentityCode::read", "rs1090::decode::bds::bds05::decode_ac12 (via AirbornePosition::try_from)"],
    trusted_base=[KANI, DEKU, FMT],
    bounds="exhaustive by solver: all 2^13 AC codes with M=0, all 2^12 ME altitude codes, all 2^16 arguments of gray2alt (pairs: 2^32), all 2^13 identity codes; unwind 17",
    outside="metric altitudes (M = 1); 0 ft is indistinguishable from 'unavailable' in the u16 report and is accepted as either",
    assumptions=["oracle: Annex 10 Gillham/25-ft definitions written independently in harness/src/refs.rs and c13.rs"],
    harnesses=[
        H("c13::ac13_oracle", timeout=300, bounds="code < 2^13, M = 0"),
        H("c13::ac12_oracle", timeout=300, bounds="code < 2^12"),
        H("c13::ac13_ac12_agree", timeout=300, bounds="code < 2^13, M = 0"),
        H("c13::gray2alt_oracle", timeout=120, bounds="all u16"),
        H("c13::gray2alt_injective", timeout=120, bounds="all pairs of u16"),
        H("c13::gray2alt_gray_sequence", timeout=120, bounds="all pairs of u16"),
        H("c13::gray2alt_onto", timeout=120, bounds="steps 0..=1266"),
        H("c13::id13_permutation", timeout=120, bounds="all pairs of 13-bit fields"),
        H("c13::squawk_oracle", timeout=120, bounds="all 2^13 identity fields"),
    ],
)

SPECS["C18"] = dict(
    feature="c18",
    functions=["rs1090::decode::time::since_gps_week_to_since_today", "rs1090::decode::time::gps_week_in_s"],
    trusted_base=[KANI],
    bounds="t in [0, 604800e9) ns (all values); unix time in [315964800, 2^34) s (year 1980..2514)",
    outside="unix times >= 2^34 s; now_in_s()/SystemTime (callers)",
    assumptions=["oracle arithmetic uses fresh quotient variables constrained by the division lemma (a = q*d + r, r < d) instead of a symbolic % on the oracle side"],
    harnesses=[
        H("c18::tow_exact", timeout=120, bounds="t < 604800e9"),
        H("c18::week_start", timeout=600, bounds="315964800 <= s < 2^34"),
    ],
)


def select(pid, hs, tier, seed):
    """seed-dependent choice of instances for the quick tier (verdicts do not depend on it)"""
    return hs

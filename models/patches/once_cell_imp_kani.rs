// Single-threaded stand-in used only under Kani (a harness has exactly one thread):
// no thread parking, no atomics.
use core::cell::{Cell, UnsafeCell};
use core::panic::{RefUnwindSafe, UnwindSafe};

pub(crate) struct OnceCell<T> {
    done: Cell<bool>,
    value: UnsafeCell<Option<T>>,
}
unsafe impl<T: Sync + Send> Sync for OnceCell<T> {}
unsafe impl<T: Send> Send for OnceCell<T> {}
impl<T: RefUnwindSafe + UnwindSafe> RefUnwindSafe for OnceCell<T> {}
impl<T: UnwindSafe> UnwindSafe for OnceCell<T> {}

impl<T> OnceCell<T> {
    pub(crate) const fn new() -> OnceCell<T> {
        OnceCell { done: Cell::new(false), value: UnsafeCell::new(None) }
    }
    pub(crate) const fn with_value(value: T) -> OnceCell<T> {
        OnceCell { done: Cell::new(true), value: UnsafeCell::new(Some(value)) }
    }
    #[inline]
    pub(crate) fn is_initialized(&self) -> bool { self.done.get() }
    #[cold]
    pub(crate) fn initialize<F, E>(&self, f: F) -> Result<(), E>
    where
        F: FnOnce() -> Result<T, E>,
    {
        if self.done.get() { return Ok(()); }
        match f() {
            Ok(v) => { unsafe { *self.value.get() = Some(v); } self.done.set(true); Ok(()) }
            Err(e) => Err(e),
        }
    }
    #[cold]
    pub(crate) fn wait(&self) { assert!(self.done.get()); }
    pub(crate) unsafe fn get_unchecked(&self) -> &T {
        match &*self.value.get() { Some(v) => v, None => core::hint::unreachable_unchecked() }
    }
    pub(crate) fn get_mut(&mut self) -> Option<&mut T> { self.value.get_mut().as_mut() }
    #[inline]
    pub(crate) fn into_inner(self) -> Option<T> { self.value.into_inner() }
}

//! tokio_mini: single-threaded, immediately-ready stand-ins for the tokio::sync items used by
//! jet1090's dedup.rs / snapshot.rs / main.rs::update. Not a scheduler model.
pub mod sync {
    use core::cell::{RefCell, RefMut};
    pub struct Mutex<T> { inner: RefCell<T> }
    pub struct MutexGuard<'a, T> { g: RefMut<'a, T> }
    impl<T> Mutex<T> {
        pub fn new(t: T) -> Self { Mutex { inner: RefCell::new(t) } }
        pub async fn lock(&self) -> MutexGuard<'_, T> { MutexGuard { g: self.inner.borrow_mut() } }
        pub fn try_lock(&self) -> Result<MutexGuard<'_, T>, ()> { Ok(MutexGuard { g: self.inner.borrow_mut() }) }
        pub fn into_inner(self) -> T { self.inner.into_inner() }
    }
    impl<T> core::ops::Deref for MutexGuard<'_, T> { type Target = T; fn deref(&self) -> &T { &self.g } }
    impl<T> core::ops::DerefMut for MutexGuard<'_, T> { fn deref_mut(&mut self) -> &mut T { &mut self.g } }

    pub mod mpsc {
        use std::cell::RefCell;
        use std::collections::VecDeque;
        use std::rc::Rc;
        struct Chan<T> { q: VecDeque<T>, senders: usize, rx_alive: bool }
        pub struct Sender<T> { c: Rc<RefCell<Chan<T>>> }
        pub struct Receiver<T> { c: Rc<RefCell<Chan<T>>> }
        pub mod error {
            #[derive(Debug)] pub struct SendError<T>(pub T);
            impl<T> core::fmt::Display for SendError<T> { fn fmt(&self, f: &mut core::fmt::Formatter<'_>) -> core::fmt::Result { write!(f, "channel closed") } }
        }
        pub fn channel<T>(_cap: usize) -> (Sender<T>, Receiver<T>) {
            let c = Rc::new(RefCell::new(Chan { q: VecDeque::new(), senders: 1, rx_alive: true }));
            (Sender { c: c.clone() }, Receiver { c })
        }
        impl<T> Sender<T> {
            pub async fn send(&self, v: T) -> Result<(), error::SendError<T>> {
                let mut c = self.c.borrow_mut();
                if !c.rx_alive { return Err(error::SendError(v)); }
                c.q.push_back(v); Ok(())
            }
        }
        impl<T> Clone for Sender<T> { fn clone(&self) -> Self { self.c.borrow_mut().senders += 1; Sender { c: self.c.clone() } } }
        impl<T> Drop for Sender<T> { fn drop(&mut self) { self.c.borrow_mut().senders -= 1; } }
        impl<T> Drop for Receiver<T> { fn drop(&mut self) { self.c.borrow_mut().rx_alive = false; } }
        impl<T> Receiver<T> {
            /// Ready immediately: Some(v) if queued, None if empty (the harness closes the channel
            /// before polling, so "empty" and "closed" coincide).
            pub async fn recv(&mut self) -> Option<T> { self.c.borrow_mut().q.pop_front() }
            pub fn try_recv(&mut self) -> Result<T, ()> { self.c.borrow_mut().q.pop_front().ok_or(()) }
        }
    }
}

//! Solver-friendly model of the deku 0.18.1 *runtime* (reader side only).
//! The derive macros are the real `deku_derive`; only the bit reader and the
//! primitive readers are re-implemented without `bitvec`.
extern crate alloc;
use alloc::borrow::Cow;
use alloc::vec::Vec;

pub mod no_std_io {
    //! Minimal in-memory replacement for no_std_io2 (std::io): no io::Error.
    #[derive(Debug, Clone, Copy, PartialEq, Eq)]
    pub enum ErrorKind { UnexpectedEof, InvalidInput, Other }
    #[derive(Debug, Clone, Copy, PartialEq, Eq)]
    pub struct Error(pub ErrorKind);
    impl Error { pub fn kind(&self) -> ErrorKind { self.0 } }
    pub type Result<T> = core::result::Result<T, Error>;
    #[derive(Debug, Clone, Copy, PartialEq, Eq)]
    pub enum SeekFrom { Start(u64), End(i64), Current(i64) }
    pub trait Read {
        fn read_exact(&mut self, buf: &mut [u8]) -> Result<()>;
        /// model-only helpers: random access to the underlying bytes
        fn m_len(&self) -> usize;
        fn m_pos(&self) -> usize;
        fn m_set_pos(&mut self, pos: usize);
        fn m_byte(&self, idx: usize) -> u8;
    }
    pub trait Seek { fn seek(&mut self, pos: SeekFrom) -> Result<u64>; }
    pub trait Write {}
    pub struct Cursor<T> { inner: T, pos: u64 }
    impl<T> Cursor<T> {
        pub fn new(inner: T) -> Self { Cursor { inner, pos: 0 } }
        pub fn position(&self) -> u64 { self.pos }
        pub fn into_inner(self) -> T { self.inner }
    }
    impl<T: AsRef<[u8]>> Read for Cursor<T> {
        fn read_exact(&mut self, buf: &mut [u8]) -> Result<()> {
            let data = self.inner.as_ref();
            let start = core::cmp::min(self.pos as usize, data.len());
            let avail = data.len() - start;
            if buf.len() > avail {
                // std semantics: position moves to the end on a short read_exact
                self.pos = data.len() as u64;
                return Err(Error(ErrorKind::UnexpectedEof));
            }
            let mut i = 0;
            while i < buf.len() { buf[i] = data[start + i]; i += 1; }
            self.pos += buf.len() as u64;
            Ok(())
        }
        #[inline(always)]
        fn m_len(&self) -> usize { self.inner.as_ref().len() }
        #[inline(always)]
        fn m_pos(&self) -> usize { self.pos as usize }
        #[inline(always)]
        fn m_set_pos(&mut self, pos: usize) { self.pos = pos as u64; }
        #[inline(always)]
        fn m_byte(&self, idx: usize) -> u8 { let d = self.inner.as_ref(); if idx < d.len() { d[idx] } else { 0 } }
    }
    impl<T: AsRef<[u8]>> Seek for Cursor<T> {
        fn seek(&mut self, style: SeekFrom) -> Result<u64> {
            let (base, off) = match style {
                SeekFrom::Start(n) => { self.pos = n; return Ok(n); }
                SeekFrom::End(n) => (self.inner.as_ref().len() as u64, n),
                SeekFrom::Current(n) => (self.pos, n),
            };
            match base.checked_add_signed(off) {
                Some(n) => { self.pos = n; Ok(n) }
                None => Err(Error(ErrorKind::InvalidInput)),
            }
        }
    }
}
pub use deku_derive::*;

pub mod ctx {
    use core::marker::PhantomData;
    #[derive(Debug, Copy, Clone, Eq, PartialEq)]
    pub enum Endian { Little, Big }
    impl Endian {
        pub const fn new() -> Self { Endian::Little }
        pub fn is_le(self) -> bool { self == Endian::Little }
        pub fn is_be(self) -> bool { self == Endian::Big }
    }
    impl Default for Endian { fn default() -> Self { Self::new() } }
    #[derive(Debug, Copy, Clone, Eq, PartialEq, Ord, PartialOrd)]
    pub struct ByteSize(pub usize);
    #[derive(Debug, Copy, Clone, Eq, PartialEq, Ord, PartialOrd)]
    pub struct BitSize(pub usize);
    impl BitSize {
        pub const fn of<T>() -> Self { Self(core::mem::size_of::<T>() * 8) }
    }
    pub enum Limit<T, Predicate: FnMut(&T) -> bool> {
        Count(usize),
        Until(Predicate, PhantomData<T>),
        ByteSize(ByteSize),
        BitSize(BitSize),
        End,
    }
    impl<T> From<usize> for Limit<T, fn(&T) -> bool> { fn from(n: usize) -> Self { Limit::Count(n) } }
    impl<T> Limit<T, fn(&T) -> bool> {
        pub fn new_count(count: usize) -> Self { count.into() }
    }
}

/// see Reader::new
#[cfg(kani)]
pub mod verif_hooks {
    pub static mut READERS: u32 = 0;
    pub static mut CUT_AT: u32 = 0;
    pub static mut CUT_EXPECTED: bool = true;
    pub static mut CUT_REACHED: bool = false;
}

pub mod error {
    use alloc::borrow::Cow;
    pub use crate::no_std_io::ErrorKind;
    #[derive(Debug, Clone, PartialEq, Eq)]
    pub struct NeedSize { bits: usize }
    impl NeedSize {
        pub fn new(bits: usize) -> Self { Self { bits } }
        pub fn bit_size(&self) -> usize { self.bits }
        pub fn byte_size(&self) -> usize { (self.bits + 7) / 8 }
    }
    #[derive(Debug, Clone, PartialEq, Eq)]
    #[non_exhaustive]
    pub enum DekuError {
        Incomplete(NeedSize),
        Parse(Cow<'static, str>),
        InvalidParam(Cow<'static, str>),
        Assertion(Cow<'static, str>),
        AssertionNoStr,
        IdVariantNotFound,
        Io(ErrorKind),
    }
    impl From<core::num::TryFromIntError> for DekuError {
        fn from(_e: core::num::TryFromIntError) -> DekuError { DekuError::Parse(Cow::from("error parsing int")) }
    }
    impl From<core::array::TryFromSliceError> for DekuError {
        fn from(_e: core::array::TryFromSliceError) -> DekuError { DekuError::Parse(Cow::from("error parsing from slice")) }
    }
    impl From<core::convert::Infallible> for DekuError {
        fn from(_e: core::convert::Infallible) -> DekuError { unreachable!() }
    }
    impl core::fmt::Display for DekuError {
        fn fmt(&self, f: &mut core::fmt::Formatter) -> core::fmt::Result {
            match *self {
                DekuError::Incomplete(ref size) => write!(f, "Not enough data, need {} bits (or {} bytes)", size.bit_size(), size.byte_size()),
                DekuError::Parse(ref err) => write!(f, "Parse error: {err}"),
                DekuError::InvalidParam(ref err) => write!(f, "Invalid param error: {err}"),
                DekuError::Assertion(ref err) => write!(f, "Assertion error: {err}"),
                DekuError::AssertionNoStr => write!(f, "Assertion error"),
                DekuError::IdVariantNotFound => write!(f, "Could not resolve `id` for variant"),
                DekuError::Io(ref e) => write!(f, "io errorr: {e:?}"),
            }
        }
    }
    impl std::error::Error for DekuError {}
}
pub use crate::error::DekuError;

pub mod reader {
    use crate::error::{DekuError, NeedSize};
    use alloc::vec::Vec;
    use crate::no_std_io::{ErrorKind, Read, Seek, SeekFrom};

    pub const MAX_BITS_AMT: usize = 128;

    /// Up to 128 bits, MSB-first, left-aligned in `bytes` (same layout as
    /// `BitVec<u8, Msb0>`), unused trailing bits are zero.
    #[derive(Debug, Clone, Copy, PartialEq, Eq)]
    pub struct Bits { pub bytes: [u8; 16], pub len: usize }
    impl Bits {
        pub fn len(&self) -> usize { self.len }
        pub fn into_vec(self) -> Vec<u8> {
            let nbytes = (self.len + 7) / 8;
            let mut v = Vec::with_capacity(nbytes);
            let mut i = 0;
            while i < nbytes { v.push(self.bytes[i]); i += 1; }
            v
        }
        /// the first `n` (<= 64) bits as an MSB-first integer
        pub fn head_u64(&self, n: usize) -> u64 {
            let mut acc: u64 = 0;
            let nbytes = (n + 7) / 8;
            let mut i = 0;
            while i < nbytes { acc = (acc << 8) | self.bytes[i] as u64; i += 1; }
            let pad = nbytes * 8 - n;
            acc >> pad
        }
    }

    pub enum ReaderRet { Bytes, Bits(Option<Bits>) }

    pub struct Reader<'a, R: Read + Seek> {
        inner: &'a mut R,
        /// number of not-yet-consumed bits of the last byte fetched from `inner` (0..=7)
        left_len: usize,
        pub last_bits_read_amt: usize,
        pub bits_read: usize,
    }

    impl<R: Read + Seek> Seek for Reader<'_, R> {
        fn seek(&mut self, pos: SeekFrom) -> crate::no_std_io::Result<u64> {
            self.left_len = 0;
            self.inner.seek(pos)
        }
    }

    impl<'a, R: Read + Seek> Reader<'a, R> {
        #[inline]
        pub fn new(inner: &'a mut R) -> Self {
            // verification hook (Kani build only): a harness may end every path at the N-th reader
            // construction ("end paths after the check they guard"), asserting first that reaching
            // this point was expected.  Message::from_reader_with_ctx builds its second reader right
            // after the CRC gate, immediately before the (expensive) DF payload parse.
            #[cfg(kani)]
            unsafe {
                crate::verif_hooks::READERS += 1;
                if crate::verif_hooks::CUT_AT != 0 && crate::verif_hooks::READERS == crate::verif_hooks::CUT_AT {
                    crate::verif_hooks::CUT_REACHED = true;
                    assert!(crate::verif_hooks::CUT_EXPECTED, "PROP: the cut point (second reader = past the CRC gate) is reached only when the harness expects it");
                    kani::assume(false);
                }
            }
            Self { inner, left_len: 0, last_bits_read_amt: 0, bits_read: 0 }
        }
        #[inline]
        pub fn seek_last_read(&mut self) -> crate::no_std_io::Result<()> {
            let number = self.last_bits_read_amt as i64;
            let seek_amt = (number / 8).saturating_add((number % 8).signum());
            self.seek(SeekFrom::Current(seek_amt.saturating_neg()))?;
            self.bits_read -= self.last_bits_read_amt;
            self.left_len = 0;
            Ok(())
        }
        pub fn end(&mut self) -> bool {
            panic!("deku-model: Reader::end is not modelled");
        }
        #[inline]
        pub fn skip_bits(&mut self, amt: usize) -> Result<(), DekuError> {
            self.read_bits(amt)?;
            Ok(())
        }
        /// Same observable behaviour as deku 0.18.1 `Reader::read_bits`, without bitvec:
        /// the stream is [left_len leftover bits of byte pos-1][bytes from pos...].
        #[inline]
        pub fn read_bits(&mut self, amt: usize) -> Result<Option<Bits>, DekuError> {
            if amt == 0 { return Ok(None); }
            assert!(amt <= MAX_BITS_AMT);
            let prev = self.left_len;
            let pos = self.inner.m_pos();
            let len = self.inner.m_len();
            // how many fresh bytes the real reader fetches
            let need = if amt > prev { (amt - prev + 7) / 8 } else { 0 };
            if need > 0 && (pos > len || need > len - pos) {
                self.inner.m_set_pos(len);
                return Err(DekuError::Incomplete(NeedSize::new(amt)));
            }
            // absolute bit offset of the first bit to return
            let start_bit = pos * 8 - prev;
            let base = start_bit / 8;
            let sh = (start_bit % 8) as u32;
            let nout = (amt + 7) / 8;
            let mut out = [0u8; 16];
            let mut i = 0;
            while i < nout {
                if sh == 0 {
                    // aligned: keep the byte syntactically untouched so that concrete bytes stay concrete
                    out[i] = self.inner.m_byte(base + i);
                } else {
                    let hi = (self.inner.m_byte(base + i) as u16) << sh;
                    let lo = (self.inner.m_byte(base + i + 1) as u16) >> (8 - sh);
                    out[i] = ((hi | lo) & 0xff) as u8;
                }
                i += 1;
            }
            let tail = nout * 8 - amt;
            if tail != 0 { out[nout - 1] &= (0xffu16 << tail) as u8; }
            let new_pos = pos + need;
            self.inner.m_set_pos(new_pos);
            self.left_len = new_pos * 8 - (start_bit + amt);
            self.last_bits_read_amt += amt;
            self.bits_read += amt;
            Ok(Some(Bits { bytes: out, len: amt }))
        }
        #[inline]
        pub fn read_bytes(&mut self, amt: usize, buf: &mut [u8]) -> Result<ReaderRet, DekuError> {
            if self.left_len == 0 {
                let pos = self.inner.m_pos();
                let len = self.inner.m_len();
                if pos > len || amt > len - pos {
                    self.inner.m_set_pos(len);
                    return Err(DekuError::Incomplete(NeedSize::new(amt * 8)));
                }
                let mut i = 0;
                while i < amt { buf[i] = self.inner.m_byte(pos + i); i += 1; }
                self.inner.m_set_pos(pos + amt);
                self.last_bits_read_amt += amt * 8;
                self.bits_read += amt * 8;
                return Ok(ReaderRet::Bytes);
            }
            Ok(ReaderRet::Bits(self.read_bits(amt * 8)?))
        }
    }
}

use crate::reader::{Reader, ReaderRet};
use crate::ctx::*;

pub trait DekuReader<'a, Ctx = ()> {
    fn from_reader_with_ctx<R: no_std_io::Read + no_std_io::Seek>(
        reader: &mut Reader<R>,
        ctx: Ctx,
    ) -> Result<Self, DekuError>
    where
        Self: Sized;
}
pub trait DekuContainerRead<'a>: DekuReader<'a, ()> {
    fn from_reader<R: no_std_io::Read + no_std_io::Seek>(
        input: (&'a mut R, usize),
    ) -> Result<(usize, Self), DekuError>
    where
        Self: Sized;
    fn from_bytes(input: (&'a [u8], usize)) -> Result<((&'a [u8], usize), Self), DekuError>
    where
        Self: Sized;
}
pub trait DekuEnumExt<'__deku, T> {
    fn deku_id(&self) -> Result<T, DekuError>;
}

pub mod prelude {
    pub use crate::error::{DekuError, NeedSize};
    pub use crate::{deku_derive, reader::Reader, DekuContainerRead, DekuEnumExt, DekuRead, DekuReader};
}

macro_rules! impl_uint {
    ($typ:ty) => {
        impl DekuReader<'_, (Endian, BitSize)> for $typ {
            #[inline(always)]
            fn from_reader_with_ctx<R: no_std_io::Read + no_std_io::Seek>(
                reader: &mut Reader<R>,
                (endian, size): (Endian, BitSize),
            ) -> Result<$typ, DekuError> {
                const MAX_TYPE_BITS: usize = BitSize::of::<$typ>().0;
                if size.0 > MAX_TYPE_BITS {
                    return Err(DekuError::Parse(Cow::from("too much data")));
                }
                let bits = reader.read_bits(size.0)?;
                let Some(bits) = bits else {
                    return Err(DekuError::Parse(Cow::from("no bits read from reader")));
                };
                Ok(bits_to(&bits, size.0, endian) as $typ)
            }
        }
        impl DekuReader<'_, (Endian, ByteSize)> for $typ {
            #[inline(always)]
            fn from_reader_with_ctx<R: no_std_io::Read + no_std_io::Seek>(
                reader: &mut Reader<R>,
                (endian, size): (Endian, ByteSize),
            ) -> Result<$typ, DekuError> {
                const MAX_TYPE_BYTES: usize = core::mem::size_of::<$typ>();
                if size.0 > MAX_TYPE_BYTES {
                    return Err(DekuError::Parse(Cow::from("too much data")));
                }
                let mut buf = [0u8; MAX_TYPE_BYTES];
                let ret = reader.read_bytes(size.0, &mut buf)?;
                let a = match ret {
                    ReaderRet::Bytes => {
                        if endian.is_le() {
                            <$typ>::from_le_bytes(buf)
                        } else {
                            if size.0 != MAX_TYPE_BYTES {
                                let padding = MAX_TYPE_BYTES - size.0;
                                buf.copy_within(0..size.0, padding);
                                buf[..padding].fill(0x00);
                            }
                            <$typ>::from_be_bytes(buf)
                        }
                    }
                    ReaderRet::Bits(Some(bits)) => bits_to(&bits, size.0 * 8, endian) as $typ,
                    ReaderRet::Bits(None) => {
                        return Err(DekuError::Parse(Cow::from("no bits read from reader")));
                    }
                };
                Ok(a)
            }
        }
        impl DekuReader<'_, Endian> for $typ {
            #[inline(always)]
            fn from_reader_with_ctx<R: no_std_io::Read + no_std_io::Seek>(
                reader: &mut Reader<R>,
                endian: Endian,
            ) -> Result<$typ, DekuError> {
                <$typ>::from_reader_with_ctx(reader, (endian, ByteSize(core::mem::size_of::<$typ>())))
            }
        }
        impl DekuReader<'_, ByteSize> for $typ {
            #[inline(always)]
            fn from_reader_with_ctx<R: no_std_io::Read + no_std_io::Seek>(
                reader: &mut Reader<R>,
                byte_size: ByteSize,
            ) -> Result<$typ, DekuError> {
                <$typ>::from_reader_with_ctx(reader, (Endian::default(), byte_size))
            }
        }
        impl DekuReader<'_, BitSize> for $typ {
            #[inline(always)]
            fn from_reader_with_ctx<R: no_std_io::Read + no_std_io::Seek>(
                reader: &mut Reader<R>,
                bit_size: BitSize,
            ) -> Result<$typ, DekuError> {
                let endian = Endian::default();
                if (bit_size.0 % 8) == 0 {
                    <$typ>::from_reader_with_ctx(reader, (endian, ByteSize(bit_size.0 / 8)))
                } else {
                    <$typ>::from_reader_with_ctx(reader, (endian, bit_size))
                }
            }
        }
        impl DekuReader<'_> for $typ {
            #[inline(always)]
            fn from_reader_with_ctx<R: no_std_io::Read + no_std_io::Seek>(
                reader: &mut Reader<R>,
                _: (),
            ) -> Result<$typ, DekuError> {
                <$typ>::from_reader_with_ctx(reader, Endian::default())
            }
        }
    };
}

/// Value of the first `n` bits of `bits` read as an unsigned integer per deku's rules.
#[inline(always)]
fn bits_to(bits: &crate::reader::Bits, n: usize, endian: Endian) -> u64 {
    assert!(n <= 64, "deku-model: integer reads wider than 64 bits are not modelled");
    let val = bits.head_u64(n);
    if endian.is_be() || n <= 8 {
        val
    } else {
        // deku 0.18.1 little-endian rule: whole bytes in stream order are least significant
        // first; a trailing partial byte (r = n % 8 bits) is right-aligned and most significant.
        let k = n / 8;
        let r = n % 8;
        let mut out: u64 = 0;
        let mut i = 0;
        while i < k {
            let byte = (val >> (r + 8 * (k - 1 - i))) & 0xff;
            out |= byte << (8 * i);
            i += 1;
        }
        if r != 0 {
            out |= (val & ((1u64 << r) - 1)) << (8 * k);
        }
        out
    }
}

impl_uint!(u8);
impl_uint!(u16);
impl_uint!(u32);
impl_uint!(u64);
impl_uint!(usize);

macro_rules! impl_float {
    ($typ:ty, $inner:ty) => {
        impl DekuReader<'_, Endian> for $typ {
            #[inline(always)]
            fn from_reader_with_ctx<R: no_std_io::Read + no_std_io::Seek>(
                reader: &mut Reader<R>,
                endian: Endian,
            ) -> Result<$typ, DekuError> {
                let v = <$inner>::from_reader_with_ctx(reader, endian)?;
                Ok(<$typ>::from_bits(v))
            }
        }
        impl DekuReader<'_> for $typ {
            #[inline(always)]
            fn from_reader_with_ctx<R: no_std_io::Read + no_std_io::Seek>(
                reader: &mut Reader<R>,
                _: (),
            ) -> Result<$typ, DekuError> {
                <$typ>::from_reader_with_ctx(reader, Endian::default())
            }
        }
    };
}
impl_float!(f32, u32);
impl_float!(f64, u64);

impl<'a, Ctx> DekuReader<'a, Ctx> for bool
where
    Ctx: Copy,
    u8: DekuReader<'a, Ctx>,
{
    fn from_reader_with_ctx<R: no_std_io::Read + no_std_io::Seek>(
        reader: &mut Reader<R>,
        inner_ctx: Ctx,
    ) -> Result<bool, DekuError> {
        let val = u8::from_reader_with_ctx(reader, inner_ctx)?;
        match val {
            0x01 => Ok(true),
            0x00 => Ok(false),
            _ => Err(DekuError::Parse(Cow::from("cannot parse bool value"))),
        }
    }
}

impl<Ctx: Copy> DekuReader<'_, Ctx> for () {
    fn from_reader_with_ctx<R: no_std_io::Read + no_std_io::Seek>(
        _reader: &mut Reader<R>,
        _ctx: Ctx,
    ) -> Result<Self, DekuError> { Ok(()) }
}

impl<'a, T, Ctx, Predicate> DekuReader<'a, (Limit<T, Predicate>, Ctx)> for Vec<T>
where
    T: DekuReader<'a, Ctx>,
    Ctx: Copy,
    Predicate: FnMut(&T) -> bool,
{
    fn from_reader_with_ctx<R: no_std_io::Read + no_std_io::Seek>(
        reader: &mut Reader<R>,
        (limit, inner_ctx): (Limit<T, Predicate>, Ctx),
    ) -> Result<Self, DekuError> {
        match limit {
            Limit::Count(count) => {
                let mut res = Vec::with_capacity(count);
                let mut i = 0;
                while i < count {
                    res.push(<T>::from_reader_with_ctx(reader, inner_ctx)?);
                    i += 1;
                }
                Ok(res)
            }
            _ => panic!("deku-model: only count-limited Vec reads are modelled"),
        }
    }
}
impl<'a, T: DekuReader<'a>, Predicate: FnMut(&T) -> bool> DekuReader<'a, Limit<T, Predicate>> for Vec<T> {
    fn from_reader_with_ctx<R: no_std_io::Read + no_std_io::Seek>(
        reader: &mut Reader<R>,
        limit: Limit<T, Predicate>,
    ) -> Result<Self, DekuError> {
        Vec::from_reader_with_ctx(reader, (limit, ()))
    }
}

impl<'a, Ctx: Copy, T, const N: usize> DekuReader<'a, Ctx> for [T; N]
where
    T: DekuReader<'a, Ctx> + Copy + Default,
{
    fn from_reader_with_ctx<R: no_std_io::Read + no_std_io::Seek>(
        reader: &mut Reader<R>,
        ctx: Ctx,
    ) -> Result<Self, DekuError> {
        let mut out = [T::default(); N];
        let mut i = 0;
        while i < N {
            out[i] = T::from_reader_with_ctx(reader, ctx)?;
            i += 1;
        }
        Ok(out)
    }
}

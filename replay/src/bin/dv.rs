//! Same output format as tools/diffval/model (real deku here), plus — with `--ser` — a line
//! "<hex> SER json=<ok|err> rec=<ok|err> df=<..> icao24=<..>" comparing serde_json with the
//! recording serializer of the harnesses on every accepted message.
use rs1090::prelude::*;
use std::io::BufRead;
fn main() {
    std::panic::set_hook(Box::new(|_| {}));
    let ser = std::env::args().any(|a| a == "--ser");
    let stdin = std::io::stdin();
    for line in stdin.lock().lines() {
        let line = line.unwrap();
        let b: Vec<u8> = (0..line.len() / 2).map(|i| u8::from_str_radix(&line[2 * i..2 * i + 2], 16).unwrap()).collect();
        let r = std::panic::catch_unwind(|| Message::try_from(&b[..]));
        match r {
            Ok(Ok(m)) => {
                if !ser {
                    println!("{} OK {:?}", line, m);
                } else {
                    let j = serde_json::to_string(&m);
                    let (rr, rec) = vh::recser::record(&m);
                    let cap = |c: vh::recser::Captured| -> String { if c.count == 0 { "-".into() } else { String::from_utf8_lossy(&c.buf[..c.len.min(32)]).to_string() } };
                    let (jdf, jicao, jdup) = match &j {
                        Ok(s) => {
                            let v: serde_json::Value = serde_json::from_str(s).unwrap();
                            let g = |k: &str| v.get(k).and_then(|x| x.as_str()).map(|x| x.to_string()).unwrap_or("-".into());
                            // duplicate top-level keys: count occurrences of "\"key\":" at depth 1 is approximated by comparing lengths
                            let reser = serde_json::to_string(&v).unwrap();
                            (g("df"), g("icao24"), reser.len() != s.len())
                        }
                        Err(_) => ("-".into(), "-".into(), false),
                    };
                    println!("{} SER json={} rec={} df={}/{} icao24={}/{} dup={}/{} oneline={}", line,
                             if j.is_ok() { "ok" } else { "err" }, if rr.is_ok() { "ok" } else { "err" },
                             jdf, cap(rec.df.get()), jicao, cap(rec.icao24.get()), jdup, rec.dup.get(),
                             j.as_ref().map(|s| !s.contains('\n')).unwrap_or(true));
                }
            }
            Ok(Err(e)) => if !ser { println!("{} ERR {}", line, match e {
                DekuError::Incomplete(_) => "Incomplete", DekuError::Parse(_) => "Parse", DekuError::InvalidParam(_) => "InvalidParam",
                DekuError::Assertion(_) => "Assertion", DekuError::AssertionNoStr => "AssertionNoStr", DekuError::IdVariantNotFound => "IdVariantNotFound",
                _ => "Other" }) },
            Err(_) => println!("{} PANIC", line),
        }
    }
}

//! replay <harness-key> <hex tape> : runs one harness body natively on a byte tape.
//! exit 0 = body ran to the end (property holds on this tape)
//! exit 1 = a panic (property assertion or Rust-level abort) — the violation REPRODUCES
//! exit 3 = the tape does not satisfy the harness' assumptions
//! exit 4 = unknown harness
use std::panic;

fn main() {
    let args: Vec<String> = std::env::args().collect();
    if args.len() == 2 && args[1] == "--list" {
        for (n, _) in vh::registry() {
            println!("{n}");
        }
        return;
    }
    if args.len() < 3 {
        eprintln!("usage: replay <harness> <hex-tape> | --list");
        std::process::exit(4);
    }
    let key = &args[1];
    let hex = &args[2];
    let tape: Vec<u8> = (0..hex.len() / 2)
        .map(|i| u8::from_str_radix(&hex[2 * i..2 * i + 2], 16).unwrap())
        .collect();
    let f = vh::registry().into_iter().find(|(n, _)| n == key);
    let Some((_, f)) = f else {
        eprintln!("unknown harness {key}");
        std::process::exit(4);
    };
    // record where the panic happened (file:line:col) so that distinct failing sites with the
    // same message are told apart
    static LOC: std::sync::Mutex<String> = std::sync::Mutex::new(String::new());
    panic::set_hook(Box::new(|info| {
        if let Some(l) = info.location() {
            *LOC.lock().unwrap() = format!("{}:{}:{}", l.file(), l.line(), l.column());
        }
    }));
    let r = panic::catch_unwind(move || {
        let mut t = vh::src::Tape::new(tape);
        f(&mut t);
    });
    match r {
        Ok(()) => {
            println!("REPLAY: holds");
            std::process::exit(0)
        }
        Err(e) => {
            if e.downcast_ref::<vh::src::AssumeFailed>().is_some() {
                println!("REPLAY: assumption not satisfied by tape");
                std::process::exit(3);
            }
            let msg = if let Some(s) = e.downcast_ref::<String>() {
                s.clone()
            } else if let Some(s) = e.downcast_ref::<&str>() {
                s.to_string()
            } else {
                "panic".to_string()
            };
            println!("REPLAY: reproduced: {msg} @ {}", LOC.lock().unwrap());
            std::process::exit(1)
        }
    }
}

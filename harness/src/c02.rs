//! C02 — CRC acceptance and AP address recovery: crc::modes_checksum, CRC_TABLE, the DF17
//! rejection arm and IcaoParity in decode/mod.rs.
use crate::refs::{crc_byte, syndrome};
use crate::src::Src;
use rs1090::decode::crc::{modes_checksum, CRC_TABLE};
use rs1090::decode::DF;
use rs1090::prelude::*;

fn set_bit(f: &mut [u8; 14], pos: usize) {
    // bit 0 = first transmitted bit = MSB of byte 0
    f[pos / 8] ^= 0x80u8 >> (pos % 8);
}

harness! {
    /// all 256 table entries equal the bit-serial remainder of the byte
    fn table_entries(s) {
        let i = s.u8();
        vcover!(i == 255);
        vassert!(CRC_TABLE[i as usize] == crc_byte(0, i), "CRC_TABLE[i] is the remainder of byte i");
    }
}

harness! {
    #[kani::unwind(10)]
    /// one table-driven step == eight bit-serial division steps, any 24-bit remainder, any byte
    /// (inductive step: covers frames of any length)
    fn table_step(s) {
        let rem = s.u32();
        vassume!(rem < (1 << 24));
        let b = s.u8();
        let t = ((rem << 8) ^ CRC_TABLE[(u32::from(b) ^ ((rem & 0x00ff_0000) >> 16)) as usize]) & 0x00ff_ffff;
        vcover!(rem == 0xffffff && b == 0xff);
        vassert!(t == crc_byte(rem, b), "table step equals 8 bit-serial steps");
    }
}

harness! {
    #[kani::unwind(15)]
    /// modes_checksum == remainder modulo the generator, every 112-bit frame
    fn checksum_long(s) {
        let f: [u8; 14] = s.bytes();
        let got = modes_checksum(&f, 112);
        vcover!(got == Ok(0));
        vassert!(got == Ok(syndrome(&f, 14)), "checksum of a long frame equals the polynomial remainder");
    }
}

harness! {
    #[kani::unwind(15)]
    /// modes_checksum == remainder modulo the generator, every 56-bit frame
    fn checksum_short(s) {
        let f: [u8; 7] = s.bytes();
        let got = modes_checksum(&f, 56);
        vcover!(got == Ok(0));
        vassert!(got == Ok(syndrome(&f, 7)), "checksum of a short frame equals the polynomial remainder");
    }
}

harness! {
    #[kani::unwind(15)]
    /// the checksum of a 56-bit frame held in a LONGER buffer (the demodulator of source/rtlsdr.rs always
    /// passes 14 bytes) is the remainder of its first seven bytes only; and a buffer shorter than the
    /// announced length is an error
    fn checksum_short_in_long_buffer(s) {
        let f: [u8; 14] = s.bytes();
        let got = modes_checksum(&f, 56);
        vcover!(got == Ok(0));
        vassert!(got == Ok(syndrome(&f[..7], 7)), "checksum of a short frame in a long buffer is the remainder of the frame alone");
        vassert!(modes_checksum(&f[..6], 56).is_err() && modes_checksum(&f[..13], 112).is_err(), "a buffer shorter than the announced length is an error");
    }
}

harness! {
    #[kani::unwind(15)]
    /// the syndrome is GF(2)-linear: crc(a ^ b) == crc(a) ^ crc(b)
    fn linear(s) {
        let a: [u8; 14] = s.bytes();
        let b: [u8; 14] = s.bytes();
        let mut c = [0u8; 14];
        let mut i = 0;
        while i < 14 { c[i] = a[i] ^ b[i]; i += 1; }
        let (ra, rb, rc) = (modes_checksum(&a, 112).unwrap(), modes_checksum(&b, 112).unwrap(), modes_checksum(&c, 112).unwrap());
        vcover!(ra != 0 && rb != 0);
        vassert!(rc == ra ^ rb, "syndrome is linear");
    }
}

harness! {
    #[kani::unwind(15)]
    /// every single-bit error pattern has a non-zero syndrome (with linearity: a valid frame
    /// with one flipped bit is never valid)
    fn err_single(s) {
        let p = s.below(112) as usize;
        let mut e = [0u8; 14];
        set_bit(&mut e, p);
        vcover!(p == 111);
        vassert!(modes_checksum(&e, 112).unwrap() != 0, "single-bit error detected");
    }
}

harness! {
    #[kani::unwind(15)]
    /// every double-bit error pattern (6216 pairs) has a non-zero syndrome
    fn err_double(s) {
        let i = s.below(112) as usize;
        let j = s.below(112) as usize;
        vassume!(i < j);
        let mut e = [0u8; 14];
        set_bit(&mut e, i);
        set_bit(&mut e, j);
        vcover!(i == 0 && j == 111);
        vassert!(modes_checksum(&e, 112).unwrap() != 0, "double-bit error detected");
    }
}

harness! {
    #[kani::unwind(26)]
    /// every burst confined to 24 consecutive bits (any non-zero 24-bit pattern at any offset)
    /// has a non-zero syndrome
    fn err_burst(s) {
        let pat = s.u32();
        vassume!(pat != 0 && pat < (1 << 24));
        let off = s.below(89) as usize; // 112 - 24 + 1 offsets
        let mut e = [0u8; 14];
        let mut k = 0;
        while k < 24 {
            if (pat >> (23 - k)) & 1 == 1 { set_bit(&mut e, off + k); }
            k += 1;
        }
        vcover!(off == 88 && pat == 0xffffff);
        vassert!(modes_checksum(&e, 112).unwrap() != 0, "burst error up to 24 bits detected");
    }
}

fn is_df17(r: &Result<Message, DekuError>) -> bool {
    matches!(r, Ok(Message { df: DF::ExtendedSquitterADSB(_), .. }))
}

harness! {
    #[kani::unwind(17)]
    #[kani::stub(alloc::fmt::format, crate::stubs::fmt_stub)]
    /// DF17 acceptance gate, through Message::try_from: a DF17 frame (capability 5, type code 0,
    /// every other bit symbolic) is accepted iff the reference remainder is zero, and the
    /// reported crc is that remainder
    fn gate_df17(s) {
        let mut f: [u8; 14] = s.bytes();
        f[0] = 0x8d;
        f[4] = 0; // type code 0 (no position): the cheapest arm; the gate does not depend on it
        let syn = syndrome(&f, 14);
        let r = Message::try_from(&f[..]);
        vcover!(r.is_ok());
        vcover!(r.is_err());
        vassert!(is_df17(&r) == (syn == 0), "DF17 accepted iff remainder is zero");
        if let Ok(m) = &r { vassert!(m.crc == 0, "accepted DF17 carries crc 0"); }
        core::mem::forget(r);
    }
}


macro_rules! gate_cut {
    ($name:ident, $b0:expr) => {
        harness! {
            #[kani::unwind(17)]
            #[kani::stub(alloc::fmt::format, crate::stubs::fmt_stub)]
            /// the DF17 CRC gate of Message::from_reader_with_ctx on EVERY 112-bit frame with this first
            /// byte (type-code byte 0 so that an accepted frame always parses natively; the gate does not
            /// read it): the path continues past the gate (to the second reader, where the deku model ends
            /// it: the payload parse behind it is what makes whole-frame harnesses cost 50 min) exactly when
            /// the reference remainder is zero.  Natively (replay, real deku, no cut) the same body checks
            /// accepted-as-DF17 <=> remainder zero on the whole decode.
            fn $name(s) {
                let mut f: [u8; 14] = s.bytes();
                f[0] = $b0;
                f[4] = 0;
                let syn = syndrome(&f, 14);
                #[cfg(kani)]
                unsafe {
                    deku::verif_hooks::READERS = 0;
                    deku::verif_hooks::CUT_AT = 2;
                    deku::verif_hooks::CUT_EXPECTED = syn == 0;
                }
                vcover!(syn == 0);
                vcover!(syn != 0);
                let r = Message::try_from(&f[..]);
                // under Kani only paths on which the gate rejected get here
                #[cfg(kani)]
                vassert!(syn != 0, "a DF17 frame with zero remainder passes the CRC gate");
                vassert!(is_df17(&r) == (syn == 0), "DF17 accepted iff remainder is zero");
                core::mem::forget(r);
            }
        }
    };
}
gate_cut!(gate_cut_df17_ca5, 0x8d);
gate_cut!(gate_cut_df17_ca0, 0x88);
gate_cut!(gate_cut_df17_ca7, 0x8f);

harness! {
    #[kani::unwind(17)]
    #[kani::stub(alloc::fmt::format, crate::stubs::fmt_stub)]
    /// same gate for the other seven capability values (byte 0 = 0x88..0x8f)
    fn gate_df17_all_ca(s) {
        let mut f: [u8; 14] = s.bytes();
        f[4] = 0;
        let mut ca = 0u8;
        while ca < 8 {
            f[0] = 0x88 | ca;
            let syn = syndrome(&f, 14);
            let r = Message::try_from(&f[..]);
            vcover!(ca == 7 && r.is_ok());
            vassert!(is_df17(&r) == (syn == 0), "DF17 accepted iff remainder is zero");
            core::mem::forget(r);
            ca += 1;
        }
    }
}

harness! {
    #[kani::unwind(17)]
    #[kani::stub(alloc::fmt::format, crate::stubs::fmt_stub)]
    /// end to end: a valid DF17 frame (type code 0) with a 1-bit, 2-bit or <= 24-bit burst error
    /// outside bytes 0 and 4 is never accepted as DF17
    fn e2e_corruption(s) {
        let mut f: [u8; 14] = s.bytes();
        let kind = s.below(3);
        let i = s.below(112) as usize;
        let j = s.below(112) as usize;
        let pat = s.u32();
        f[0] = 0x8d;
        f[4] = 0;
        f[11] = 0; f[12] = 0; f[13] = 0;
        let p = syndrome(&f, 14);
        f[11] = (p >> 16) as u8; f[12] = (p >> 8) as u8; f[13] = p as u8;
        let mut e = [0u8; 14];
        match kind {
            0 => set_bit(&mut e, i),
            1 => { vassume!(i < j); set_bit(&mut e, i); set_bit(&mut e, j); }
            _ => {
                vassume!(pat != 0 && pat < (1 << 24) && i <= 88);
                let mut k = 0;
                while k < 24 { if (pat >> (23 - k)) & 1 == 1 { set_bit(&mut e, i + k); } k += 1; }
            }
        }
        vassume!(e[0] == 0 && e[4] == 0);
        let mut g = f;
        let mut k = 0;
        while k < 14 { g[k] ^= e[k]; k += 1; }
        let r = Message::try_from(&g[..]);
        vcover!(kind == 2 && r.is_err());
        vassert!(!is_df17(&r), "corrupted DF17 frame is not accepted as DF17");
        core::mem::forget(r);
    }
}

harness! {
    #[kani::unwind(17)]
    #[kani::stub(alloc::fmt::format, crate::stubs::fmt_stub)]
    /// the AP field reader reports the crc context (= recovered address), whatever the 24 AP bits are
    fn icao_parity_is_ctx(s) {
        let b: [u8; 3] = s.bytes();
        let crc = s.u32();
        let mut cur = deku::no_std_io::Cursor::new(&b[..]);
        let mut reader = Reader::new(&mut cur);
        let r = rs1090::decode::IcaoParity::from_reader_with_ctx(&mut reader, crc);
        vcover!(r.is_ok());
        vassert!(matches!(r, Ok(p) if p.0 == crc), "AP field reports the address recovered from the checksum");
    }
}

/// frame = payload || (remainder(payload) ^ address): what a transponder sends on AP formats
fn overlay<const N: usize>(f: &mut [u8; N], addr: u32) {
    f[N - 3] = 0; f[N - 2] = 0; f[N - 1] = 0;
    let p = syndrome(&f[..], N) ^ addr;
    f[N - 3] = (p >> 16) as u8; f[N - 2] = (p >> 8) as u8; f[N - 1] = p as u8;
}

harness! {
    #[kani::unwind(15)]
    /// algebra of the overlay on the real checksum: for every payload and address,
    /// modes_checksum(payload || crc(payload)^addr) == addr  (long and short frames)
    fn overlay_checksum(s) {
        let mut f: [u8; 14] = s.bytes();
        let mut g: [u8; 7] = s.bytes();
        let addr = s.u32();
        vassume!(addr < (1 << 24));
        overlay(&mut f, addr);
        overlay(&mut g, addr);
        vcover!(addr == 0xffffff);
        vassert!(modes_checksum(&f, 112) == Ok(addr), "long AP frame: checksum recovers the address");
        vassert!(modes_checksum(&g, 56) == Ok(addr), "short AP frame: checksum recovers the address");
    }
}

fn reported_icao(m: &Message) -> Option<u32> {
    match &m.df {
        DF::ShortAirAirSurveillance { ap, .. } => Some(ap.0),
        DF::SurveillanceAltitudeReply { ap, .. } => Some(ap.0),
        DF::SurveillanceIdentityReply { ap, .. } => Some(ap.0),
        DF::LongAirAirSurveillance { ap, .. } => Some(ap.0),
        DF::CommBAltitudeReply { ap, .. } => Some(ap.0),
        DF::CommBIdentityReply { ap, .. } => Some(ap.0),
        _ => None,
    }
}

macro_rules! ap_short {
    ($name:ident, $b0:expr) => {
        harness! {
            #[kani::unwind(17)]
            #[kani::stub(alloc::fmt::format, crate::stubs::fmt_stub)]
            /// short AP format: every payload (first byte's low 3 bits concrete per instance), every address
            fn $name(s) {
                let mut f: [u8; 7] = s.bytes();
                let addr = s.u32();
                vassume!(addr < (1 << 24));
                f[0] = $b0;
                overlay(&mut f, addr);
                let r = Message::try_from(&f[..]);
                vcover!(r.is_ok());
                if let Ok(m) = &r {
                    vassert!(reported_icao(m) == Some(addr), "reported address is the transmitted address");
                    vassert!(m.crc == addr, "crc context is the transmitted address");
                }
                core::mem::forget(r);
            }
        }
    };
}
ap_short!(ap_df0, 0x02);
ap_short!(ap_df4, 0x20);
ap_short!(ap_df5, 0x28);
ap_short!(ap_df4_fs5, 0x25);
ap_short!(ap_df5_fs7, 0x2f);

macro_rules! ap_long {
    ($name:ident, $b0:expr, $mbzero:expr) => {
        harness! {
            #[kani::unwind(17)]
            #[kani::stub(alloc::fmt::format, crate::stubs::fmt_stub)]
            /// long AP format: header and address symbolic; Comm-B MB field all-zero when $mbzero
            /// (the address path does not read MB: it is the crc context; the checksum itself is
            /// covered for every frame by checksum_long / overlay_checksum)
            fn $name(s) {
                let mut f: [u8; 14] = s.bytes();
                let addr = s.u32();
                vassume!(addr < (1 << 24));
                f[0] = $b0;
                if $mbzero { let mut k = 4; while k < 11 { f[k] = 0; k += 1; } }
                overlay(&mut f, addr);
                let r = Message::try_from(&f[..]);
                vcover!(r.is_ok());
                if let Ok(m) = &r {
                    vassert!(reported_icao(m) == Some(addr), "reported address is the transmitted address");
                    vassert!(m.crc == addr, "crc context is the transmitted address");
                }
                core::mem::forget(r);
            }
        }
    };
}
ap_long!(ap_df16, 0x80, false);
ap_long!(ap_df20, 0xa0, true);
ap_long!(ap_df21, 0xa8, true);

registry!(icao_parity_is_ctx, table_entries, table_step, checksum_long, checksum_short, checksum_short_in_long_buffer, linear, err_single, err_double, err_burst,
          gate_df17, gate_cut_df17_ca5, gate_cut_df17_ca0, gate_cut_df17_ca7, gate_df17_all_ca, e2e_corruption, overlay_checksum,
          ap_df0, ap_df4, ap_df5, ap_df4_fs5, ap_df5_fs7, ap_df16, ap_df20, ap_df21);

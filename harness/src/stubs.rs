//! Contract stubs (DESIGN 2.2-4). Only compiled into the Kani build; every stub is part
//! of the trusted base of the harnesses that name it.

/// `alloc::fmt::format` -> empty string: text of error/log messages is outside every claim.
pub fn fmt_stub(_a: core::fmt::Arguments<'_>) -> String {
    String::new()
}

#[cfg(kani)]
pub mod k {
    use core::f64::consts::PI;

    /// libm::atan2 by contract: result in [-PI, PI], NaN iff an argument is NaN,
    /// sign(result) = sign(y) (y != 0), |result| <= PI/2 iff x >= 0, result == 0 iff
    /// (y == 0 and x >= 0)... and a magnitude floor 2^-12 for non-zero results (the smallest
    /// non-zero angle on the +-1023 x +-1023 integer grid is atan(1/1022) ~ 9.8e-4; without the
    /// floor the solver picks -tiny and `h + 360.0` rounds to 360.0 — a value libm never returns
    /// for these arguments).
    pub fn atan2_stub(y: f64, x: f64) -> f64 {
        let r: f64 = kani::any();
        if y.is_nan() || x.is_nan() {
            kani::assume(r.is_nan());
            return r;
        }
        kani::assume(r >= -PI && r <= PI);
        if y > 0.0 {
            kani::assume(r > 0.0);
        }
        if y < 0.0 {
            kani::assume(r < 0.0);
        }
        if y == 0.0 {
            kani::assume(r == 0.0 || r == PI || r == -PI);
            if x > 0.0 {
                kani::assume(r == 0.0);
            }
        }
        if x > 0.0 {
            kani::assume(r > -PI / 2.0 && r < PI / 2.0);
        }
        if x < 0.0 && y != 0.0 {
            kani::assume(r > PI / 2.0 || r < -PI / 2.0);
        }
        // octant: |y| <= |x| (x > 0) keeps the angle within 45 degrees of the x axis, etc.
        let ay = if y < 0.0 { -y } else { y };
        let ax = if x < 0.0 { -x } else { x };
        let ar = if r < 0.0 { -r } else { r };
        if ax.is_finite() && ay.is_finite() && (ax > 0.0 || ay > 0.0) {
            if x > 0.0 && ay <= ax { kani::assume(ar <= PI / 4.0 + 1e-9); }
            if x > 0.0 && ay >= ax { kani::assume(ar >= PI / 4.0 - 1e-9); }
            if x < 0.0 && ay <= ax { kani::assume(ar >= 3.0 * PI / 4.0 - 1e-9); }
            if x < 0.0 && ay >= ax { kani::assume(ar <= 3.0 * PI / 4.0 + 1e-9); }
        }
        kani::assume(r == 0.0 || r >= 0.000244140625 || r <= -0.000244140625);
        r
    }

    /// libm::round by contract (only used by Display impls): |r - x| <= 0.5, NaN iff NaN
    pub fn round_stub(x: f64) -> f64 {
        let r: f64 = kani::any();
        if x.is_nan() { kani::assume(r.is_nan()); return r; }
        if x.is_infinite() { return x; }
        kani::assume(r >= x - 0.5 && r <= x + 0.5);
        r
    }

    /// libm::hypot by contract: finite non-negative for finite arguments,
    /// max(|x|,|y|) <= r <= |x|+|y|.
    pub fn hypot_stub(x: f64, y: f64) -> f64 {
        let r: f64 = kani::any();
        if x.is_nan() || y.is_nan() {
            kani::assume(r.is_nan());
            return r;
        }
        let ax = if x < 0.0 { -x } else { x };
        let ay = if y < 0.0 { -y } else { y };
        kani::assume(r >= ax && r >= ay && r <= ax + ay);
        r
    }

    /// `f64::rem_euclid` by contract.  NEEDED: Kani 0.68 / CBMC 6.11 mis-model the f64 remainder (`100.0 % 360.0 == 100.0` is
    /// UNSATISFIABLE, the operator yields 0.0), so every assertion behind a float `rem_euclid` was vacuous (found with seed
    /// C15-5, DESIGN 7.5).  Contract (over-approximation of std's `let r = x % m; if r < 0 { r + |m| } else { r }`):
    /// NaN for non-finite x or zero / non-finite modulus; otherwise 0 <= r <= |m|, r == |m| only for negative x (the rounding
    /// case `-tiny + m == m`), exact for -|m| <= x < |m|, arbitrary in range beyond.
    pub fn rem_euclid_stub(x: f64, rhs: f64) -> f64 {
        let r: f64 = kani::any();
        if !x.is_finite() || !rhs.is_finite() || rhs == 0.0 {
            kani::assume(r.is_nan());
            return r;
        }
        let m = if rhs < 0.0 { -rhs } else { rhs };
        kani::assume(r >= 0.0 && r <= m);
        if r == m { kani::assume(x < 0.0); }
        if x >= 0.0 && x < m { kani::assume(r == x); }
        if x < 0.0 && x >= -m { kani::assume(r == x + m); }
        r
    }
}

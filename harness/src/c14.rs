//! C14 — registration lookup (closed-form schemes only: N-number, JA, HL).
use crate::src::Src;
use rs1090::data::tail::{hl_reg, ja_reg, n_reg, numeric_reg};

include!("gen/patterns_tab.rs");

harness! {
    #[kani::unwind(30)]
    /// ja_reg on ALL 2^32 arguments with its real string building: no panic; and the result
    /// has a left inverse (independent parser), hence two addresses never share a JA registration;
    /// prefix "JA"; address inside Japan's block
    fn ja_total_inverse(s) {
        let h = s.u32();
        let r = ja_reg(h);
        vcover!(r.is_some());
        vcover!(r.is_none());
        if h < 0x840000 || h >= 0x840000 + 229_840 { vassert!(r.is_none(), "no JA registration outside the 10 x 22 984 addresses of the scheme"); }
        if let Some(reg) = &r {
            let b = reg.as_bytes();
            vassert!(b.len() == 6 && b[0] == b'J' && b[1] == b'A', "JA + 4 characters");
            const LIM: &[u8; 24] = b"ABCDEFGHJKLMNPQRSTUVWXYZ";
            let digit = |c: u8| -> Option<u32> { if c >= b'0' && c <= b'9' { Some((c - b'0') as u32) } else { None } };
            let letter = |c: u8| -> Option<u32> {
                let mut i = 0;
                while i < 24 { if LIM[i] == c { return Some(i as u32); } i += 1; }
                None
            };
            // independent parser: JAddd[d|L] or JAddLL
            let d1 = digit(b[2]);
            let d2 = digit(b[3]);
            vassert!(d1.is_some() && d2.is_some(), "two leading digits");
            let tail = match (digit(b[4]), digit(b[5]), letter(b[4]), letter(b[5])) {
                (Some(d3), Some(d4), _, _) => Some(d3 * 34 + d4),
                (Some(d3), None, _, Some(l4)) => Some(d3 * 34 + 10 + l4),
                (None, _, Some(l3), Some(l4)) => Some(340 + l3 * 24 + l4),
                _ => None,
            };
            vassert!(tail.is_some(), "well-formed JA suffix");
            let back = 0x840000 + d1.unwrap() * 22984 + d2.unwrap() * 916 + tail.unwrap();
            vassert!(back == h, "independent parser recovers the address (left inverse => injective)");
            vassert!(country_tag(h) == 2, "JA registrations only inside Japan's address block");
        }
        core::mem::forget(r);
    }
}

harness! {
    #[kani::unwind(30)]
    #[kani::stub(alloc::fmt::format, crate::stubs::fmt_stub)]
    /// n_reg on ALL 2^32 arguments (format! stubbed): no panic in the index arithmetic /
    /// chars().nth().unwrap(); answers only inside the United States block
    fn n_total(s) {
        let h = s.u32();
        let r = n_reg(h);
        vcover!(r.is_some());
        vcover!(r.is_none());
        if r.is_some() { vassert!(country_tag(h) == 1, "N registrations only inside the United States block"); }
        // there are exactly 915 399 N-numbers (N1 .. N99999, N1A .. N9999Z, N1AA .. N999ZZ), allocated
        // consecutively from a00001: one address more or less at either end duplicates or loses a registration
        vassert!(r.is_some() == (h >= 0xA00001 && h <= 0xA00001 + 915_398), "N-number answers exactly on the 915 399 addresses of the scheme");
        core::mem::forget(r);
    }
}

harness! {
    #[kani::unwind(30)]
    #[kani::stub(alloc::fmt::format, crate::stubs::fmt_stub)]
    /// hl_reg on ALL 2^32 arguments: no panic; answers only inside the Republic of Korea block
    fn hl_total(s) {
        let h = s.u32();
        let r = hl_reg(h);
        vcover!(r.is_some());
        vcover!(r.is_none());
        if r.is_some() { vassert!(country_tag(h) == 3, "HL registrations only inside the Republic of Korea block"); }
        core::mem::forget(r);
    }
}


harness! {
    #[kani::unwind(30)]
    #[kani::stub(alloc::fmt::format, crate::stubs::fmt_stub)]
    /// numeric_reg (RA-nnnnn, CU-Tnnnn) on ALL 2^32 arguments, with its real Lazy table (once_cell model),
    /// its real to_string and template slicing (format! stubbed): no panic; answers exactly on the
    /// 100 000 + 1 000 addresses of the two blocks, which lie inside Russia's / Cuba's address block
    fn numeric_total(s) {
        let h = s.u32();
        let r = numeric_reg(h);
        vcover!(r.is_some());
        vcover!(r.is_none());
        let ra = h >= 0x140000 && h <= 0x140000 + 99_999;
        let cu = h >= 0x0B03E8 && h <= 0x0B03E8 + 999;
        vassert!(r.is_some() == (ra || cu), "numeric registrations exactly on the RA- and CU-T blocks");
        if r.is_some() { vassert!(country_tag(h) == if ra { 4 } else { 5 }, "numeric registrations only inside Russia's / Cuba's block"); }
        core::mem::forget(r);
    }
}

harness! {
    #[kani::unwind(30)]
    #[kani::stub(alloc::fmt::format, crate::stubs::fmt_stub)]
    /// the three closed-form schemes never answer for the same address (tail() tries them in
    /// order, so no address gets two different national registrations)
    fn schemes_disjoint(s) {
        let h = s.u32();
        let (a, b, c, d) = (n_reg(h), ja_reg(h), hl_reg(h), numeric_reg(h));
        let k = a.is_some() as u8 + b.is_some() as u8 + c.is_some() as u8 + d.is_some() as u8;
        vcover!(k == 1);
        vassert!(k <= 1, "at most one of the N / JA / HL / numeric schemes answers");
        core::mem::forget((a, b, c, d));
    }
}

registry!(ja_total_inverse, n_total, hl_total, numeric_total, schemes_disjoint);

//! C18 — GPS time conversions (rs1090::decode::time), pure u64 arithmetic.
use crate::src::Src;
use rs1090::decode::time::{gps_week_in_s, since_gps_week_to_since_today};

const DAY_NS: u64 = 86_400_000_000_000;
const WEEK_NS: u64 = 7 * DAY_NS;
const LEAP_NS: u64 = 18_000_000_000;
const GPS_EPOCH_UNIX: u64 = 315_964_800;
const WEEK_S: u64 = 604_800;

harness! {
    /// every t in [0, one week): no panic, result == (t - 18 s) mod one day, in [0, day)
    fn tow_exact(s) {
        let t = s.u64();
        vassume!(t < WEEK_NS);
        // oracle: add one day before subtracting (value is non-negative), reduce by a
        // fresh quotient (division lemma) instead of a symbolic %
        let q = s.u64();
        vassume!(q <= 7);
        vassume!(t + DAY_NS - LEAP_NS >= q * DAY_NS);
        let want = t + DAY_NS - LEAP_NS - q * DAY_NS;
        vassume!(want < DAY_NS);
        let r = since_gps_week_to_since_today(t);
        vcover!(t < LEAP_NS);
        vcover!(t >= LEAP_NS);
        vassert!(r < DAY_NS, "time of day in [0, 86400 s)");
        vassert!(r == want, "(t - 18 s) mod one day");
    }
}

harness! {
    /// unix time s >= GPS epoch (bounded: s < 2^34, year 2514): no panic; week start w satisfies
    /// w <= s (GPS time, leap seconds included), s - w < one week, and w is on a GPS week boundary
    fn week_start(s) {
        let t = s.u64();
        vassume!(t >= GPS_EPOCH_UNIX && t < (1u64 << 34));
        let k = s.u64();
        vassume!(k < (1u64 << 20));
        let w = gps_week_in_s(t);
        // GPS seconds of t and of w
        let g_t = t - GPS_EPOCH_UNIX + 18;
        vassert!(w + 18 >= GPS_EPOCH_UNIX, "week start not before the GPS epoch");
        let g_w = w + 18 - GPS_EPOCH_UNIX;
        vcover!(g_t > 3 * WEEK_S);
        vassert!(g_w <= g_t, "week start not after the instant");
        vassert!(g_t - g_w < WEEK_S, "week start at most one week before");
        // boundary: g_w = k * WEEK_S for a fresh k (division lemma)
        vassume!(k * WEEK_S <= g_w && g_w - k * WEEK_S < WEEK_S);
        vassert!(g_w - k * WEEK_S == 0, "week start on a GPS week boundary");
    }
}

registry!(tow_exact, week_start);

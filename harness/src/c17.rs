//! C17 — terminal table navigation: `update`, `Jet1090::{next,previous,home}` sliced verbatim
//! from crates/jet1090/src/main.rs (gen/ui_slice.rs, regenerated from /repo on every run),
//! compiled against API-subset models of crossterm/ratatui types (those crates do not build
//! under Kani's toolchain) and the tokio_mini MutexGuard.
#![allow(non_camel_case_types)]
use crate::src::Src;
use std::collections::BTreeMap;

// ---- models of third-party UI types (crossterm 0.29 / ratatui 0.29 API subset) ----
#[derive(Clone, Copy, Debug, PartialEq, Eq)]
pub enum KeyCode {
    Backspace, Enter, Left, Right, Up, Down, Home, End, PageUp, PageDown, Tab, BackTab, Delete, Insert,
    F(u8), Char(char), Null, Esc, CapsLock, ScrollLock, NumLock, PrintScreen, Pause, Menu, KeypadBegin,
}
#[derive(Clone, Copy, Debug, PartialEq, Eq)]
pub struct KeyEvent { pub code: KeyCode }
#[derive(Debug, Default, Clone, Copy)]
pub struct TableState { selected: Option<usize> }
impl TableState {
    pub fn with_selected(mut self, s: usize) -> Self { self.selected = Some(s); self }
    pub fn selected(&self) -> Option<usize> { self.selected }
    pub fn select(&mut self, i: Option<usize>) { self.selected = i; }
}
#[derive(Debug, Default, Clone, Copy)]
pub struct ScrollbarState { pos: usize, len: usize }
impl ScrollbarState {
    pub fn new(len: usize) -> Self { ScrollbarState { pos: 0, len } }
    pub fn position(mut self, p: usize) -> Self { self.pos = p; self }
    pub fn content_length(mut self, l: usize) -> Self { self.len = l; self }
}
pub mod tokio { pub mod sync {
    /// stand-in for tokio::sync::MutexGuard: the guard the event loop holds while calling update()
    pub struct MutexGuard<'a, T> { pub g: &'a mut T }
    impl<T> core::ops::Deref for MutexGuard<'_, T> { type Target = T; fn deref(&self) -> &T { self.g } }
    impl<T> core::ops::DerefMut for MutexGuard<'_, T> { fn deref_mut(&mut self) -> &mut T { self.g } }
} }
#[derive(Debug, Default)] pub struct Sensor;
pub mod snapshot { #[derive(Debug)] pub struct StateVectors; }

include!("gen/ui_slice.rs");

/// the event alphabet of the property: every KeyCode variant (Char with an arbitrary scalar
/// value), Tick with arbitrary width, Error
fn any_event<S: Src>(s: &mut S) -> Event {
    let which = s.below(28);
    let c = s.u32();
    let w = s.u16();
    let ch = match char::from_u32(c) { Some(ch) => ch, None => 'x' };
    let code = match which {
        0 => KeyCode::Backspace, 1 => KeyCode::Enter, 2 => KeyCode::Left, 3 => KeyCode::Right,
        4 => KeyCode::Up, 5 => KeyCode::Down, 6 => KeyCode::Home, 7 => KeyCode::End,
        8 => KeyCode::PageUp, 9 => KeyCode::PageDown, 10 => KeyCode::Tab, 11 => KeyCode::BackTab,
        12 => KeyCode::Delete, 13 => KeyCode::Insert, 14 => KeyCode::F(w as u8), 15 => KeyCode::Char(ch),
        16 => KeyCode::Null, 17 => KeyCode::Esc, 18 => KeyCode::CapsLock, 19 => KeyCode::ScrollLock,
        20 => KeyCode::NumLock, 21 => KeyCode::PrintScreen, 22 => KeyCode::Pause, 23 => KeyCode::Menu,
        24 => KeyCode::KeypadBegin,
        25 => return Event::Tick(w),
        26 => return Event::Error,
        _ => KeyCode::Char(ch),
    };
    Event::Key(KeyEvent { code })
}

fn sort_key_id(k: &SortKey) -> u8 {
    match k { SortKey::CALLSIGN => 0, SortKey::ALTITUDE => 1, SortKey::VRATE => 2, SortKey::COUNT => 3, SortKey::FIRST => 4, SortKey::LAST => 5 }
}
fn sort_key_of(i: u32) -> SortKey {
    match i { 0 => SortKey::CALLSIGN, 1 => SortKey::ALTITUDE, 2 => SortKey::VRATE, 3 => SortKey::COUNT, 4 => SortKey::FIRST, _ => SortKey::LAST }
}

fn inv(app: &Jet1090) -> bool {
    let n = app.items.len();
    match app.state.selected() {
        Some(i) => (n == 0 && i == 0) || i < n,
        None => false,
    }
}

fn mk_app(n: usize, sel: usize) -> Jet1090 {
    let mut items = Vec::new();
    let mut i = 0;
    while i < n { items.push(String::new()); i += 1; }
    // built the way main() builds it
    Jet1090 { items, state: TableState::default().with_selected(sel), scroll_state: ScrollbarState::new(0), ..Default::default() }
}

/// documented effect of one event on the flags (the frame conditions of the property)
fn check_flags(ev: &Event, before: (bool, bool, u8, bool, u16), app: &Jet1090) {
    let (quit0, search0, key0, asc0, width0) = before;
    let code = match ev { Event::Key(k) => Some(k.code), _ => None };
    let quit_key = !search0 && matches!(code, Some(KeyCode::Char('q')) | Some(KeyCode::Esc));
    vassert!(app.should_quit == (quit0 || quit_key), "should_quit changes only on q / Esc outside search mode");
    let want_search = match (search0, code) {
        (false, Some(KeyCode::Char('/'))) => true,
        (true, Some(KeyCode::Enter)) | (true, Some(KeyCode::Esc)) => false,
        _ => search0,
    };
    vassert!(app.is_search_mode == want_search, "search mode changes only on / , Enter, Esc");
    let want_key = match (search0, code) {
        (false, Some(KeyCode::Char('a'))) => 1,
        (false, Some(KeyCode::Char('c'))) => 0,
        (false, Some(KeyCode::Char('v'))) => 2,
        (false, Some(KeyCode::Char('.'))) => 3,
        (false, Some(KeyCode::Char('f'))) => 4,
        (false, Some(KeyCode::Char('l'))) => 5,
        _ => key0,
    };
    vassert!(sort_key_id(&app.sort_key) == want_key, "sort key changes only on its documented keys");
    let want_asc = if !search0 && code == Some(KeyCode::Char('-')) { !asc0 } else { asc0 };
    vassert!(app.sort_asc == want_asc, "sort direction toggles only on '-'");
    let want_w = match ev { Event::Tick(w) => *w, _ => width0 };
    vassert!(app.width == want_w, "width changes only on Tick");
}

harness! {
    #[kani::unwind(6)]
    /// inductive step: any UI state satisfying the invariant (table sizes 0..=3), any flags,
    /// one arbitrary event: no panic, invariant preserved, flags change only as documented
    fn step(s) {
        let n = s.below(4) as usize;
        let sel = s.below(4) as usize;
        vassume!((n == 0 && sel == 0) || sel < n);
        let search = s.bool();
        let quit = s.bool();
        let asc = s.bool();
        let key = s.below(6);
        let width = s.u16();
        let ev = any_event(s);
        let mut app = mk_app(n, sel);
        app.is_search_mode = search;
        app.should_quit = quit;
        app.sort_asc = asc;
        app.sort_key = sort_key_of(key);
        app.width = width;
        vassume!(inv(&app));
        let before = (quit, search, key as u8, asc, width);
        let r = {
            let mut g = tokio::sync::MutexGuard { g: &mut app };
            update(&mut g, ev)
        };
        vcover!(n == 0);
        vcover!(n == 3 && app.state.selected() == Some(0) && sel == 2);
        vassert!(r.is_ok(), "update returns Ok");
        vassert!(inv(&app), "selection is 0 on an empty table and < len otherwise");
        check_flags(&ev, before, &app);
        core::mem::forget(app);
    }
}

harness! {
    #[kani::unwind(6)]
    /// the initial state built as in main() satisfies the invariant, for table sizes 0..=3
    fn init(s) {
        let n = s.below(4) as usize;
        let app = mk_app(n, 0);
        vcover!(n == 0);
        vassert!(inv(&app), "initial state satisfies the invariant");
        core::mem::forget(app);
    }
}

harness! {
    #[kani::unwind(6)]
    /// bounded histories: 4 arbitrary events from the initial state, table sizes 0..=3
    /// (cross-check that the invariant is reachable-closed, and totality along histories)
    fn seq4(s) {
        let n = s.below(4) as usize;
        let e1 = any_event(s);
        let e2 = any_event(s);
        let e3 = any_event(s);
        let e4 = any_event(s);
        let mut app = mk_app(n, 0);
        let evs = [e1, e2, e3, e4];
        let mut k = 0;
        while k < 4 {
            let r = {
                let mut g = tokio::sync::MutexGuard { g: &mut app };
                update(&mut g, evs[k])
            };
            vassert!(r.is_ok(), "update returns Ok");
            vassert!(inv(&app), "selection stays in range along every history");
            k += 1;
        }
        vcover!(n == 3 && app.state.selected() == Some(2));
        vcover!(n == 0 && app.should_quit);
        core::mem::forget(app);
    }
}

registry!(step, init, seq4);

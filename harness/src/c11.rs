//! C11 — output filters (crates/jet1090/src/filters.rs, included whole and unchanged).
//! Records are CONSTRUCTED from symbolic fields (all fields of DF/ADSB/ControlField are public),
//! which covers every decodable record and more; the decode invariant `ap == crc` of the AP
//! formats (decided under C02) is assumed.  The oracle is the standard's notion of "the address
//! the frame carries / the JSON shows": AA for DF11/17/18, the AP-recovered address for DF
//! 0/4/5/16/20/21 — C07 ties the JSON `icao24` / `df` entries to the same fields.
use crate::src::Src;
use rs1090::decode::adsb::{ADSB, ME};
use rs1090::decode::commb::{DF20DataSelector, DF21DataSelector};
use rs1090::decode::{AC13Field, Capability, ControlField, ControlFieldType, DownlinkRequest, FlightStatus, IcaoParity, IdentityCode,
                     UtilityMessage, UtilityMessageType, DF, ICAO};
use rs1090::prelude::*;

#[path = "../../repo/crates/jet1090/src/filters.rs"]
pub mod filters;
use filters::Filters;

const LABELS: [&str; 12] = ["0", "4", "5", "11", "16", "17", "18", "19", "20", "21", "24", "99"];

struct Cfg {
    df_mode: u32,      // 0 absent, 1 empty, 2 one label, 3 two labels
    l1: usize,
    l2: usize,
    ac_mode: u32,      // 0 absent, 1 empty, 2 one address, 3 two addresses
    x: u32,
    y: u32,
}
fn any_cfg<S: Src>(s: &mut S) -> Cfg {
    let c = Cfg { df_mode: s.below(4), l1: s.below(12) as usize, l2: s.below(12) as usize, ac_mode: s.below(4), x: s.u32(), y: s.u32() };
    vassume!(c.x < (1 << 24) && c.y < (1 << 24));
    c
}
fn build(c: &Cfg) -> Filters {
    let df_filter = match c.df_mode {
        0 => None,
        1 => Some(vec![]),
        2 => Some(vec![LABELS[c.l1].to_string()]),
        _ => Some(vec![LABELS[c.l1].to_string(), LABELS[c.l2].to_string()]),
    };
    let aircraft_filter = match c.ac_mode {
        0 => None,
        1 => Some(vec![]),
        2 => Some(vec![ICAO(c.x)]),
        _ => Some(vec![ICAO(c.x), ICAO(c.y)]),
    };
    Filters { df_filter, aircraft_filter }
}
/// the specification: kept iff (df filter absent | empty | contains label) and (aircraft filter absent | empty | contains address)
fn want(c: &Cfg, label_idx: usize, addr: u32) -> bool {
    let df_ok = match c.df_mode { 0 | 1 => true, 2 => c.l1 == label_idx, _ => c.l1 == label_idx || c.l2 == label_idx };
    let ac_ok = match c.ac_mode { 0 | 1 => true, 2 => c.x == addr, _ => c.x == addr || c.y == addr };
    df_ok && ac_ok
}

fn timed(m: Option<Message>) -> TimedMessage {
    TimedMessage { timestamp: 0.0, frame: vec![], message: m, metadata: vec![], decode_time: None }
}

fn um0() -> UtilityMessage { UtilityMessage { iis: 0, ids: UtilityMessageType::NoInformation } }

macro_rules! filt {
    ($name:ident, $label:expr, |$s:ident, $addr:ident, $other:ident| $mk:expr) => {
        harness! {
            #[kani::unwind(8)]
            #[kani::stub(alloc::fmt::format, crate::stubs::fmt_stub)]
            /// every filter configuration (absent / empty / one / two entries, labels over all
            /// formats, arbitrary 24-bit addresses) x every address carried by the record
            fn $name($s) {
                let cfg = any_cfg($s);
                let $addr = $s.u32();
                let $other = $s.u32();
                vassume!($addr < (1 << 24) && $other < (1 << 24));
                let df: DF = $mk;
                let crc = match &df { DF::AllCallReply { .. } | DF::ExtendedSquitterTisB { .. } => $other, DF::ExtendedSquitterADSB(_) => 0, _ => $addr };
                let t = timed(Some(Message { crc, df }));
                let f = build(&cfg);
                let got = Filters::is_in(&f, &t);
                let w = want(&cfg, $label, $addr);
                vcover!(got && cfg.ac_mode == 3 && cfg.df_mode == 3);
                vcover!(!got);
                vassert!(got == w, "record kept exactly when both filters accept its displayed df and address");
                core::mem::forget(t);
                core::mem::forget(f);
            }
        }
    };
}

filt!(df0, 0, |s, addr, other| DF::ShortAirAirSurveillance { vs: 0, cc: 0, unused: 0, sl: 0, unused1: 0, ri: 0, unused2: 0, ac: AC13Field(s.u16()), ap: IcaoParity(addr) });
filt!(df4, 1, |s, addr, other| DF::SurveillanceAltitudeReply { fs: FlightStatus::NoAlertNoSpiAirborne, dr: DownlinkRequest::None, um: um0(), ac: AC13Field(s.u16()), ap: IcaoParity(addr) });
filt!(df5, 2, |s, addr, other| DF::SurveillanceIdentityReply { fs: FlightStatus::NoAlertNoSpiAirborne, dr: DownlinkRequest::None, um: um0(), id: IdentityCode(s.u16() & 0x7777), ap: IcaoParity(addr) });
filt!(df11, 3, |s, addr, other| DF::AllCallReply { capability: Capability::AG_AIRBORNE, icao: ICAO(addr), p_icao: ICAO(other) });
filt!(df16, 4, |s, addr, other| DF::LongAirAirSurveillance { vs: 0, reserved1: 0, sl: 0, reserved2: 0, ri: 0, reserved3: 0, ac: AC13Field(s.u16()), mv: vec![0; 7], ap: IcaoParity(addr) });
filt!(df17, 5, |s, addr, other| DF::ExtendedSquitterADSB(ADSB { capability: Capability::AG_AIRBORNE, icao24: ICAO(addr), message: ME::Reserved1 { unused: s.u8() }, parity: ICAO(other) }));
filt!(df18, 6, |s, addr, other| DF::ExtendedSquitterTisB { cf: ControlField { field_type: ControlFieldType::TISB_FINE, aa: ICAO(addr), me: ME::Reserved1 { unused: s.u8() } }, pi: ICAO(other) });
filt!(df20, 8, |s, addr, other| DF::CommBAltitudeReply { fs: FlightStatus::NoAlertNoSpiAirborne, dr: DownlinkRequest::None, um: um0(), ac: AC13Field(s.u16()), bds: DF20DataSelector::default(), ap: IcaoParity(addr) });
filt!(df21, 9, |s, addr, other| DF::CommBIdentityReply { fs: FlightStatus::NoAlertNoSpiAirborne, dr: DownlinkRequest::None, um: um0(), id: IdentityCode(s.u16() & 0x7777), bds: DF21DataSelector::default(), ap: IcaoParity(addr) });


// Second family: the df-label filter swept CONCRETELY over the twelve labels (one-entry list, aircraft
// filter absent, record fields symbolic).  With concrete strings any comparison the implementation
// chooses (equality, substring search, prefix test ...) is evaluated during symbolic execution, so a
// wrong comparison is reported as a violation instead of a timeout: in the family above the label is a
// symbolic choice, and a substring search over it did not finish in 30 min (seed C11-2).
macro_rules! labels {
    ($name:ident, $label:expr, |$s:ident, $addr:ident, $other:ident| $mk:expr) => {
        harness! {
            #[kani::unwind(14)]
            #[kani::stub(alloc::fmt::format, crate::stubs::fmt_stub)]
            fn $name($s) {
                let $addr = $s.u32();
                let $other = $s.u32();
                vassume!($addr < (1 << 24) && $other < (1 << 24));
                let df: DF = $mk;
                let crc = match &df { DF::AllCallReply { .. } | DF::ExtendedSquitterTisB { .. } => $other, DF::ExtendedSquitterADSB(_) => 0, _ => $addr };
                let t = timed(Some(Message { crc, df }));
                let mut li = 0usize;
                while li < 12 {
                    let f = Filters { df_filter: Some(vec![LABELS[li].to_string()]), aircraft_filter: None };
                    let got = Filters::is_in(&f, &t);
                    vcover!(got);
                    vassert!(got == (li == $label), "with a one-label df filter the record is kept exactly when the label is its displayed df");
                    core::mem::forget(f);
                    li += 1;
                }
                core::mem::forget(t);
            }
        }
    };
}
labels!(labels_df0, 0, |s, addr, other| DF::ShortAirAirSurveillance { vs: 0, cc: 0, unused: 0, sl: 0, unused1: 0, ri: 0, unused2: 0, ac: AC13Field(s.u16()), ap: IcaoParity(addr) });
labels!(labels_df4, 1, |s, addr, other| DF::SurveillanceAltitudeReply { fs: FlightStatus::NoAlertNoSpiAirborne, dr: DownlinkRequest::None, um: um0(), ac: AC13Field(s.u16()), ap: IcaoParity(addr) });
labels!(labels_df5, 2, |s, addr, other| DF::SurveillanceIdentityReply { fs: FlightStatus::NoAlertNoSpiAirborne, dr: DownlinkRequest::None, um: um0(), id: IdentityCode(s.u16() & 0x7777), ap: IcaoParity(addr) });
labels!(labels_df11, 3, |s, addr, other| DF::AllCallReply { capability: Capability::AG_AIRBORNE, icao: ICAO(addr), p_icao: ICAO(other) });
labels!(labels_df16, 4, |s, addr, other| DF::LongAirAirSurveillance { vs: 0, reserved1: 0, sl: 0, reserved2: 0, ri: 0, reserved3: 0, ac: AC13Field(s.u16()), mv: vec![0; 7], ap: IcaoParity(addr) });
labels!(labels_df17, 5, |s, addr, other| DF::ExtendedSquitterADSB(ADSB { capability: Capability::AG_AIRBORNE, icao24: ICAO(addr), message: ME::Reserved1 { unused: s.u8() }, parity: ICAO(other) }));
labels!(labels_df18, 6, |s, addr, other| DF::ExtendedSquitterTisB { cf: ControlField { field_type: ControlFieldType::TISB_FINE, aa: ICAO(addr), me: ME::Reserved1 { unused: s.u8() } }, pi: ICAO(other) });
labels!(labels_df20, 8, |s, addr, other| DF::CommBAltitudeReply { fs: FlightStatus::NoAlertNoSpiAirborne, dr: DownlinkRequest::None, um: um0(), ac: AC13Field(s.u16()), bds: DF20DataSelector::default(), ap: IcaoParity(addr) });
labels!(labels_df21, 9, |s, addr, other| DF::CommBIdentityReply { fs: FlightStatus::NoAlertNoSpiAirborne, dr: DownlinkRequest::None, um: um0(), id: IdentityCode(s.u16() & 0x7777), bds: DF21DataSelector::default(), ap: IcaoParity(addr) });

harness! {
    #[kani::unwind(8)]
    #[kani::stub(alloc::fmt::format, crate::stubs::fmt_stub)]
    /// records that failed to decode are never kept, whatever the configuration
    fn undecoded_never_kept(s) {
        let cfg = any_cfg(s);
        let t = timed(None);
        let f = build(&cfg);
        vcover!(cfg.df_mode == 0 && cfg.ac_mode == 0);
        vassert!(!Filters::is_in(&f, &t), "records that failed to decode are never kept");
        core::mem::forget(t);
        core::mem::forget(f);
    }
}

registry!(df0, df4, df5, df11, df16, df17, df18, df20, df21, undecoded_never_kept,
          labels_df0, labels_df4, labels_df5, labels_df11, labels_df16, labels_df17, labels_df18, labels_df20, labels_df21);

// included by c01.rs under feature c01full
// ---------------------------------------------------------------- (e) rendering of accepted payloads
macro_rules! render {
    ($name:ident, $dec:ident, $pre:expr) => {
        harness! {
            #[kani::unwind(17)]
            #[kani::stub(alloc::fmt::format, crate::stubs::fmt_stub)]
            #[kani::stub(libm::atan2, crate::stubs::k::atan2_stub)]
            #[kani::stub(libm::hypot, crate::stubs::k::hypot_stub)]
            #[kani::stub(libm::round, crate::stubs::k::round_stub)]
            /// Display of every accepted payload does not panic (digit generation of floats is
            /// outside: inner format! calls are stubbed)
            fn $name(s) {
                let a: [u8; 7] = s.bytes();
                let pre: fn(&[u8; 7]) -> bool = $pre;
                vassume!(pre(&a));
                if let Ok(m) = $dec(&a) {
                    let mut w = NullSink;
                    let r = write!(w, "{}", m);
                    vcover!(r.is_ok());
                    vassert!(r.is_ok(), "rendering returns Ok");
                    core::mem::forget(m);
                }
            }
        }
    };
}
render!(render_bds05, d_bds05, |a| bds05_ok_tc(tc_of(a)));
render!(render_bds06, d_bds06, |a| bds06_ok_tc(tc_of(a)));
render!(render_bds08, d_bds08, |a| bds08_ok_tc(tc_of(a)));
render!(render_bds09, d_bds09, |_| true);
render!(render_bds61, d_bds61, |_| true);
render!(render_bds62, d_bds62, |_| true);
render!(render_bds65, d_bds65, |_| true);

// ---------------------------------------------------------------- (b) whole frames through Message::try_from
// The discriminating bytes are concrete (CBMC executes only the selected arm), every other bit is symbolic.
// Each of these costs ~50 min of symbolic execution (moves of the 1.5 kB DF value): thorough tier.


macro_rules! frame_short {
    ($name:ident, $b0:expr) => {
        harness! {
            #[kani::unwind(17)]
            #[kani::stub(alloc::fmt::format, crate::stubs::fmt_stub)]
            /// every 56-bit frame with this first byte: a message or an error, no panic; the crc
            /// field is the reference remainder
            fn $name(s) {
                let mut f: [u8; 7] = s.bytes();
                f[0] = $b0;
                let r = Message::try_from(&f[..]);
                vcover!(r.is_ok());
                if let Ok(m) = &r {
                    vassert!(m.crc == syndrome(&f, 7), "crc field is the remainder of the frame");
                    if let DF::AllCallReply { icao, .. } = &m.df {
                        vassert!(icao.0 == (f[1] as u32) << 16 | (f[2] as u32) << 8 | f[3] as u32, "AA is bits 9..32 of the frame");
                    }
                }
                core::mem::forget(r);
            }
        }
    };
}
frame_short!(frame_df0, 0x02);
frame_short!(frame_df4, 0x20);
frame_short!(frame_df5, 0x28);
frame_short!(frame_df11, 0x5d);
frame_short!(frame_df11_ca0, 0x58);

macro_rules! frame_long {
    ($name:ident, $b0:expr, $b4:expr, $fixcrc:expr) => {
        harness! {
            #[kani::unwind(17)]
            #[kani::stub(alloc::fmt::format, crate::stubs::fmt_stub)]
            #[kani::stub(libm::atan2, crate::stubs::k::atan2_stub)]
            #[kani::stub(libm::hypot, crate::stubs::k::hypot_stub)]
            /// every 112-bit frame with this first byte (and, for DF17/18, this type-code byte; the
            /// parity of DF17 frames is made valid by construction so that the accepting branch is
            /// reachable): a message or an error, no panic
            fn $name(s) {
                let mut f: [u8; 14] = s.bytes();
                f[0] = $b0;
                let b4: Option<u8> = $b4;
                if let Some(v) = b4 { f[4] = v; }
                if $fixcrc {
                    f[11] = 0; f[12] = 0; f[13] = 0;
                    let p = syndrome(&f, 14);
                    f[11] = (p >> 16) as u8; f[12] = (p >> 8) as u8; f[13] = p as u8;
                }
                let r = Message::try_from(&f[..]);
                vcover!(r.is_ok());
                if let Ok(m) = &r {
                    vassert!(m.crc == syndrome(&f, 14), "crc field is the remainder of the frame");
                    match &m.df {
                        DF::ExtendedSquitterADSB(a) => vassert!(a.icao24.0 == (f[1] as u32) << 16 | (f[2] as u32) << 8 | f[3] as u32, "AA is bits 9..32 of the frame"),
                        DF::ExtendedSquitterTisB { cf, .. } => vassert!(cf.aa.0 == (f[1] as u32) << 16 | (f[2] as u32) << 8 | f[3] as u32, "AA is bits 9..32 of the frame"),
                        _ => {}
                    }
                }
                core::mem::forget(r);
            }
        }
    };
}
frame_long!(frame_df16, 0x80, None, false);
frame_long!(frame_df19, 0x98, None, false);
frame_long!(frame_df24, 0xc0, None, false);
frame_long!(frame_df17_tc00, 0x8d, Some(0x00), true);
frame_long!(frame_df17_tc04, 0x8d, Some(0x20), true);
frame_long!(frame_df17_tc07, 0x8d, Some(0x38), true);
frame_long!(frame_df17_tc11, 0x8d, Some(0x58), true);
frame_long!(frame_df17_tc19_st1, 0x8d, Some(0x99), true);
frame_long!(frame_df17_tc19_st0, 0x8d, Some(0x98), true);
frame_long!(frame_df17_tc28, 0x8d, Some(0xe1), true);
frame_long!(frame_df17_tc29, 0x8d, Some(0xe8), true);
frame_long!(frame_df17_tc31_v0, 0x8d, Some(0xf8), true);
frame_long!(frame_df17_tc31_r2, 0x8d, Some(0xfa), true);
frame_long!(frame_df17_tc23, 0x8d, Some(0xb8), true);
frame_long!(frame_df18_tc11, 0x92, Some(0x58), false);
frame_long!(frame_df18_tc19, 0x90, Some(0x99), false);

len_cut!(len_cut_df00, 0x02);
len_cut!(len_cut_df01, 0x08);
len_cut!(len_cut_df05, 0x28);
len_cut!(len_cut_df14, 0x77);
len_cut!(len_cut_df16, 0x80);
len_cut!(len_cut_df18, 0x90);
len_cut!(len_cut_df19, 0x98);
len_cut!(len_cut_df21, 0xa8);
len_cut!(len_cut_df24, 0xc0);
len_cut!(len_cut_df31, 0xff);

harness! {
    #[kani::unwind(34)]
    #[kani::stub(alloc::fmt::format, crate::stubs::fmt_stub)]
    /// DF11 with any content and any length 7..=32: accepted only at exactly 7 bytes
    fn len_df11(s) {
        let mut buf: [u8; 32] = s.bytes();
        buf[0] = 0x5d;
        let len = s.below(33) as usize;
        vassume!(len >= 7);
        let r = Message::try_from(&buf[..len]);
        vcover!(r.is_ok());
        vcover!(len == 32);
        if r.is_ok() { vassert!(len == 7, "accepted only at the length the downlink format prescribes"); }
        core::mem::forget(r);
    }
}

harness! {
    #[kani::unwind(17)]
    #[kani::stub(alloc::fmt::format, crate::stubs::fmt_stub)]
    /// decoding the same bytes twice gives equal results (DF11 instance)
    fn determinism_df11(s) {
        let mut f: [u8; 7] = s.bytes();
        f[0] = 0x5d;
        let r1 = Message::try_from(&f[..]);
        let r2 = Message::try_from(&f[..]);
        vcover!(r1.is_ok());
        match (&r1, &r2) {
            (Ok(a), Ok(b)) => vassert!(a == b, "same bytes, same message"),
            (Err(_), Err(_)) => {}
            _ => vassert!(false, "same bytes, same verdict"),
        }
        core::mem::forget((r1, r2));
    }
}


// ---------------------------------------------------------------- (f) Comm-B selector glue (DF20 / DF21)
// Whole DF20/DF21 frames through Message::try_from are out of reach (DESIGN 7.2).  The selector readers
// of commb.rs are called directly on EVERY 56-bit MB field; the register hypotheses other than BDS 0,5
// are contract stubs (selstubs.rs: reject, or accept with a sample value, nondeterministically, recording
// the choice), each register's own reader being decided on all 2^56 payloads by total_bdsNN above.
macro_rules! selector_checks {
    ($sel:ident, $a:ident, $zero:ident) => {
        vassert!($sel.is_empty == $zero, "is_empty exactly for the all-zero MB field");
        if $zero {
            vassert!($sel.bds05.is_none() && $sel.bds10.is_none() && $sel.bds17.is_none() && $sel.bds18.is_none() && $sel.bds19.is_none()
                     && $sel.bds20.is_none() && $sel.bds21.is_none() && $sel.bds30.is_none() && $sel.bds40.is_none() && $sel.bds44.is_none()
                     && $sel.bds45.is_none() && $sel.bds50.is_none() && $sel.bds60.is_none() && $sel.bds65.is_none(), "an empty MB field carries no register");
        }
        if $sel.bds65.is_some() { vassert!(($a[0] >> 3) == 31 && ($a[0] & 7) < 2, "BDS 6,5 only for type code 31, category 0 or 1"); }
        #[cfg(kani)]
        {
            let acc = unsafe { crate::selstubs::ACCEPTED };
            let called = unsafe { crate::selstubs::CALLED };
            if !$zero {
                vassert!($sel.bds10.is_some() == ((acc >> 1) & 1 == 1) && $sel.bds17.is_some() == ((acc >> 2) & 1 == 1)
                         && $sel.bds18.is_some() == ((acc >> 3) & 1 == 1) && $sel.bds19.is_some() == ((acc >> 4) & 1 == 1)
                         && $sel.bds20.is_some() == ((acc >> 5) & 1 == 1) && $sel.bds21.is_some() == ((acc >> 6) & 1 == 1)
                         && $sel.bds30.is_some() == ((acc >> 7) & 1 == 1) && $sel.bds40.is_some() == ((acc >> 8) & 1 == 1)
                         && $sel.bds44.is_some() == ((acc >> 9) & 1 == 1) && $sel.bds45.is_some() == ((acc >> 10) & 1 == 1)
                         && $sel.bds50.is_some() == ((acc >> 11) & 1 == 1) && $sel.bds60.is_some() == ((acc >> 12) & 1 == 1)
                         && $sel.bds65.is_some() == ((acc >> 13) & 1 == 1), "the selector stores exactly the hypotheses that accepted the payload");
                vassert!(called & 0x1ffe == 0x1ffe, "every register hypothesis is offered a non-empty payload");
            } else {
                vassert!(called == 0, "no hypothesis is tried on an empty MB field");
            }
            if (called >> 13) & 1 == 1 { vassert!(($a[0] >> 3) == 31 && ($a[0] & 7) < 2, "BDS 6,5 is tried only for type code 31, category 0 or 1"); }
        }
    };
}
with_selector_stubs! {
    /// DF20 selector on EVERY 56-bit MB field and every header altitude: never fails, never panics
    /// (BDS 0,5 is the real reader), and stores exactly the accepted hypotheses
    fn selector_df20(s) {
        let a: [u8; 7] = s.bytes();
        let ac = s.u16();
        #[cfg(kani)]
        unsafe { crate::selstubs::ACCEPTED = 0; crate::selstubs::CALLED = 0; }
        let mut cur = deku::no_std_io::Cursor::new(&a[..]);
        let mut reader = Reader::new(&mut cur);
        let r = rs1090::decode::commb::DF20DataSelector::from_reader_with_ctx(&mut reader, rs1090::decode::AC13Field(ac));
        vcover!(matches!(&r, Ok(x) if x.bds40.is_some() && x.bds50.is_some() && x.bds05.is_some()));
        vcover!(matches!(&r, Ok(x) if x.is_empty));
        vassert!(r.is_ok(), "the selector never fails on 56 bits");
        if let Ok(sel) = &r {
            let zero = a[0] == 0 && a[1] == 0 && a[2] == 0 && a[3] == 0 && a[4] == 0 && a[5] == 0 && a[6] == 0;
            selector_checks!(sel, a, zero);
        }
        core::mem::forget(r);
    }
}
with_selector_stubs! {
    /// DF21 selector on EVERY 56-bit MB field: same, and it never labels a payload as BDS 0,5
    fn selector_df21(s) {
        let a: [u8; 7] = s.bytes();
        #[cfg(kani)]
        unsafe { crate::selstubs::ACCEPTED = 0; crate::selstubs::CALLED = 0; }
        let mut cur = deku::no_std_io::Cursor::new(&a[..]);
        let mut reader = Reader::new(&mut cur);
        let r = rs1090::decode::commb::DF21DataSelector::from_reader_with_ctx(&mut reader, ());
        vcover!(matches!(&r, Ok(x) if x.bds40.is_some() && x.bds50.is_some()));
        vcover!(matches!(&r, Ok(x) if x.is_empty));
        vassert!(r.is_ok(), "the selector never fails on 56 bits");
        if let Ok(sel) = &r {
            let zero = a[0] == 0 && a[1] == 0 && a[2] == 0 && a[3] == 0 && a[4] == 0 && a[5] == 0 && a[6] == 0;
            vassert!(sel.bds05.is_none(), "DF21 never labels a payload as an airborne position");
            selector_checks!(sel, a, zero);
        }
        core::mem::forget(r);
    }
}

// ---------------------------------------------------------------- frames LONGER than prescribed
// The "Too much data" test sits BEHIND the complete parse, and a parse with symbolic frame bits costs ~50 min of symbolic
// execution.  Here the frame itself is a CONCRETE valid sample (so the parse is constant-folded) and what is symbolic is
// everything appended to it: every content of the trailing bytes, at three concrete total lengths.
macro_rules! too_long {
    ($name:ident, $n:expr, [$($b:expr),*], [$($len:expr),*]) => {
        harness! {
            #[kani::unwind(34)]
            #[kani::stub(alloc::fmt::format, crate::stubs::fmt_stub)]
            #[kani::stub(libm::atan2, crate::stubs::k::atan2_stub)]
            #[kani::stub(libm::hypot, crate::stubs::k::hypot_stub)]
            /// a valid frame of the length its downlink format prescribes is accepted; the same frame followed by ANY
            /// extra bytes is rejected
            fn $name(s) {
                let mut buf: [u8; 32] = s.bytes();
                let head: [u8; $n] = [$($b),*];
                let mut i = 0;
                while i < $n { buf[i] = head[i]; i += 1; }
                let r0 = Message::try_from(&buf[..$n]);
                vcover!(r0.is_ok());
                vassert!(r0.is_ok(), "the sample frame is accepted at its own length");
                core::mem::forget(r0);
                $(
                    let r = Message::try_from(&buf[..$len]);
                    vassert!(r.is_err(), "accepted only at the length the downlink format prescribes");
                    core::mem::forget(r);
                )*
            }
        }
    };
}
too_long!(too_long_df11, 7, [0x5d, 0x3c, 0x66, 0x14, 0xc7, 0xb8, 0xa2], [8, 14, 32]);
too_long!(too_long_df17, 14, [0x8d, 0x40, 0x6b, 0x90, 0x20, 0x15, 0xa6, 0x78, 0xd4, 0xd2, 0x20, 0xaa, 0x4b, 0xda], [15, 32]);
too_long!(too_long_df4, 7, [0x20, 0x00, 0x17, 0x18, 0xf1, 0xa5, 0x7b], [8, 14]);

pub const FULL: &[(&str, fn(&mut crate::src::Tape))] = &[
    (concat!(module_path!(), "::too_long_df11"), too_long_df11::replay),
    (concat!(module_path!(), "::too_long_df17"), too_long_df17::replay),
    (concat!(module_path!(), "::too_long_df4"), too_long_df4::replay),
    (concat!(module_path!(), "::selector_df20"), selector_df20::replay),
    (concat!(module_path!(), "::selector_df21"), selector_df21::replay),
    (concat!(module_path!(), "::frame_df0"), frame_df0::replay),
    (concat!(module_path!(), "::frame_df4"), frame_df4::replay),
    (concat!(module_path!(), "::frame_df5"), frame_df5::replay),
    (concat!(module_path!(), "::frame_df11"), frame_df11::replay),
    (concat!(module_path!(), "::frame_df11_ca0"), frame_df11_ca0::replay),
    (concat!(module_path!(), "::frame_df16"), frame_df16::replay),
    (concat!(module_path!(), "::frame_df19"), frame_df19::replay),
    (concat!(module_path!(), "::frame_df24"), frame_df24::replay),
    (concat!(module_path!(), "::frame_df17_tc00"), frame_df17_tc00::replay),
    (concat!(module_path!(), "::frame_df17_tc04"), frame_df17_tc04::replay),
    (concat!(module_path!(), "::frame_df17_tc07"), frame_df17_tc07::replay),
    (concat!(module_path!(), "::frame_df17_tc11"), frame_df17_tc11::replay),
    (concat!(module_path!(), "::frame_df17_tc19_st1"), frame_df17_tc19_st1::replay),
    (concat!(module_path!(), "::frame_df17_tc19_st0"), frame_df17_tc19_st0::replay),
    (concat!(module_path!(), "::frame_df17_tc28"), frame_df17_tc28::replay),
    (concat!(module_path!(), "::frame_df17_tc29"), frame_df17_tc29::replay),
    (concat!(module_path!(), "::frame_df17_tc31_v0"), frame_df17_tc31_v0::replay),
    (concat!(module_path!(), "::frame_df17_tc31_r2"), frame_df17_tc31_r2::replay),
    (concat!(module_path!(), "::frame_df17_tc23"), frame_df17_tc23::replay),
    (concat!(module_path!(), "::frame_df18_tc11"), frame_df18_tc11::replay),
    (concat!(module_path!(), "::frame_df18_tc19"), frame_df18_tc19::replay),
    (concat!(module_path!(), "::len_cut_df00"), len_cut_df00::replay),
    (concat!(module_path!(), "::len_cut_df01"), len_cut_df01::replay),
    (concat!(module_path!(), "::len_cut_df05"), len_cut_df05::replay),
    (concat!(module_path!(), "::len_cut_df14"), len_cut_df14::replay),
    (concat!(module_path!(), "::len_cut_df16"), len_cut_df16::replay),
    (concat!(module_path!(), "::len_cut_df18"), len_cut_df18::replay),
    (concat!(module_path!(), "::len_cut_df19"), len_cut_df19::replay),
    (concat!(module_path!(), "::len_cut_df21"), len_cut_df21::replay),
    (concat!(module_path!(), "::len_cut_df24"), len_cut_df24::replay),
    (concat!(module_path!(), "::len_cut_df31"), len_cut_df31::replay),
    (concat!(module_path!(), "::len_df11"), len_df11::replay),
    (concat!(module_path!(), "::determinism_df11"), determinism_df11::replay),
    (concat!(module_path!(), "::render_bds05"), render_bds05::replay),
    (concat!(module_path!(), "::render_bds06"), render_bds06::replay),
    (concat!(module_path!(), "::render_bds08"), render_bds08::replay),
    (concat!(module_path!(), "::render_bds09"), render_bds09::replay),
    (concat!(module_path!(), "::render_bds61"), render_bds61::replay),
    (concat!(module_path!(), "::render_bds62"), render_bds62::replay),
    (concat!(module_path!(), "::render_bds65"), render_bds65::replay),
];

//! Harness-declaration macros shared by the Kani build and the native replay build.

/// Declares one harness: a body generic over the value source, the Kani proof entry
/// (`<module>::<name>::check`) and the native replay entry (`<module>::<name>::replay`).
#[macro_export]
macro_rules! harness {
    ($(#[$m:meta])* fn $name:ident($s:ident) $body:block) => {
        pub mod $name {
            #[allow(unused_imports)]
            use super::*;
            pub fn body<S: $crate::src::Src>($s: &mut S) $body
            #[cfg(kani)]
            #[kani::proof]
            $(#[$m])*
            pub fn check() {
                body(&mut $crate::src::K)
            }
            pub fn replay(t: &mut $crate::src::Tape) {
                body(t)
            }
        }
    };
}

#[macro_export]
macro_rules! registry {
    ($($n:ident),* $(,)?) => {
        pub const ALL: &[(&str, fn(&mut $crate::src::Tape))] = &[
            $((concat!(module_path!(), "::", stringify!($n)), $n::replay)),*
        ];
    };
}

/// Assumption on the drawn inputs (precondition of the property).
#[macro_export]
macro_rules! vassume {
    ($c:expr) => {{
        #[cfg(kani)]
        kani::assume($c);
        #[cfg(not(kani))]
        if !($c) {
            std::panic::panic_any($crate::src::AssumeFailed);
        }
    }};
}

/// Reachability witness (vacuity guard): must be SATISFIED for the harness to count.
#[macro_export]
macro_rules! vcover {
    ($c:expr) => {{
        #[cfg(kani)]
        kani::cover!($c);
        #[cfg(not(kani))]
        let _ = $c;
    }};
}

/// Property assertion; the message starts with "PROP:" so the driver can tell it from
/// implicit Rust checks (which are violations of totality in their own right).
#[macro_export]
macro_rules! vassert {
    ($c:expr, $msg:literal) => {
        assert!($c, concat!("PROP: ", $msg))
    };
}

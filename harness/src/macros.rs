//! Harness-declaration macros shared by the Kani build and the native replay build.

/// Declares one harness: a body generic over the value source, the Kani proof entry
/// (`<module>::<name>::check`) and the native replay entry (`<module>::<name>::replay`).
#[macro_export]
macro_rules! harness {
    ($(#[$m:meta])* fn $name:ident($s:ident) $body:block) => {
        pub mod $name {
            #[allow(unused_imports)]
            use super::*;
            pub fn body<S: $crate::src::Src>($s: &mut S) $body
            #[cfg(kani)]
            #[kani::proof]
            $(#[$m])*
            pub fn check() {
                body(&mut $crate::src::K)
            }
            pub fn replay(t: &mut $crate::src::Tape) {
                body(t)
            }
        }
    };
}

#[macro_export]
macro_rules! registry {
    ($($n:ident),* $(,)?) => {
        pub const ALL: &[(&str, fn(&mut $crate::src::Tape))] = &[
            $((concat!(module_path!(), "::", stringify!($n)), $n::replay)),*
        ];
    };
}

/// Assumption on the drawn inputs (precondition of the property).
#[macro_export]
macro_rules! vassume {
    ($c:expr) => {{
        #[cfg(kani)]
        kani::assume($c);
        #[cfg(not(kani))]
        if !($c) {
            std::panic::panic_any($crate::src::AssumeFailed);
        }
    }};
}

/// Reachability witness (vacuity guard): must be SATISFIED for the harness to count.
#[macro_export]
macro_rules! vcover {
    ($c:expr) => {{
        #[cfg(kani)]
        kani::cover!($c);
        #[cfg(not(kani))]
        let _ = $c;
    }};
}

/// Property assertion; the message starts with "PROP:" so the driver can tell it from
/// implicit Rust checks (which are violations of totality in their own right).
#[macro_export]
macro_rules! vassert {
    ($c:expr, $msg:literal) => {
        assert!($c, concat!("PROP: ", $msg))
    };
}

/// A harness in which the twelve Comm-B register readers other than BDS 0,5 (and BDS 6,5) are the contract
/// stubs of selstubs.rs (DESIGN 7.2): used by the harnesses that decide the glue of DF20/DF21DataSelector.
#[macro_export]
macro_rules! with_selector_stubs {
    ($($h:tt)*) => {
        $crate::harness! {
            #[kani::unwind(20)]
            #[kani::stub(alloc::fmt::format, crate::stubs::fmt_stub)]
            #[kani::stub(<rs1090::decode::bds::bds10::DataLinkCapability as core::convert::TryFrom<&[u8]>>::try_from, crate::selstubs::s_bds10)]
            #[kani::stub(<rs1090::decode::bds::bds17::CommonUsageGICBCapabilityReport as core::convert::TryFrom<&[u8]>>::try_from, crate::selstubs::s_bds17)]
            #[kani::stub(<rs1090::decode::bds::bds18::GICBCapabilityReportPart1 as core::convert::TryFrom<&[u8]>>::try_from, crate::selstubs::s_bds18)]
            #[kani::stub(<rs1090::decode::bds::bds19::GICBCapabilityReportPart2 as core::convert::TryFrom<&[u8]>>::try_from, crate::selstubs::s_bds19)]
            #[kani::stub(<rs1090::decode::bds::bds20::AircraftIdentification as core::convert::TryFrom<&[u8]>>::try_from, crate::selstubs::s_bds20)]
            #[kani::stub(<rs1090::decode::bds::bds21::AircraftAndAirlineRegistrationMarkings as core::convert::TryFrom<&[u8]>>::try_from, crate::selstubs::s_bds21)]
            #[kani::stub(<rs1090::decode::bds::bds30::ACASResolutionAdvisory as core::convert::TryFrom<&[u8]>>::try_from, crate::selstubs::s_bds30)]
            #[kani::stub(<rs1090::decode::bds::bds40::SelectedVerticalIntention as core::convert::TryFrom<&[u8]>>::try_from, crate::selstubs::s_bds40)]
            #[kani::stub(<rs1090::decode::bds::bds44::MeteorologicalRoutineAirReport as core::convert::TryFrom<&[u8]>>::try_from, crate::selstubs::s_bds44)]
            #[kani::stub(<rs1090::decode::bds::bds45::MeteorologicalHazardReport as core::convert::TryFrom<&[u8]>>::try_from, crate::selstubs::s_bds45)]
            #[kani::stub(<rs1090::decode::bds::bds50::TrackAndTurnReport as core::convert::TryFrom<&[u8]>>::try_from, crate::selstubs::s_bds50)]
            #[kani::stub(<rs1090::decode::bds::bds60::HeadingAndSpeedReport as core::convert::TryFrom<&[u8]>>::try_from, crate::selstubs::s_bds60)]
            #[kani::stub(<rs1090::decode::bds::bds65::AircraftOperationStatus as core::convert::TryFrom<&[u8]>>::try_from, crate::selstubs::s_bds65)]
            $($h)*
        }
    };
}

//! Entry points for the 20 payload types, exactly as their callers in rs1090 invoke them:
//!  * ADS-B payload structs whose type code is *not* consumed by the `ME` dispatcher (id_pat:
//!    BDS 0,5 / 0,6 / 0,8) are read from bit 0 with the type code assumed in the dispatcher's range;
//!  * ADS-B payload structs behind a consumed 5-bit id (BDS 0,9 / 6,1 / 6,2 / 6,5) are read from bit 5;
//!  * Comm-B registers are read with `X::try_from(&buf[..7])` on ARBITRARY payloads, which is
//!    literally the call commb.rs makes for every hypothesis.
use rs1090::decode::bds::{bds05, bds06, bds08, bds09, bds10, bds17, bds18, bds19, bds20, bds21, bds30, bds40, bds44, bds45, bds50, bds60, bds61, bds62, bds65};
use rs1090::prelude::*;

pub type R<T> = Result<T, DekuError>;

#[inline(always)]
pub fn tc_of(a: &[u8; 7]) -> u8 { a[0] >> 3 }

pub fn bds05_ok_tc(tc: u8) -> bool { (tc >= 9 && tc <= 18) || (tc >= 20 && tc <= 22) }
pub fn d_bds05(a: &[u8; 7]) -> R<bds05::AirbornePosition> { bds05::AirbornePosition::try_from(&a[..]) }
pub fn bds06_ok_tc(tc: u8) -> bool { tc >= 5 && tc <= 8 }
pub fn d_bds06(a: &[u8; 7]) -> R<bds06::SurfacePosition> { bds06::SurfacePosition::try_from(&a[..]) }
pub fn bds08_ok_tc(tc: u8) -> bool { tc >= 1 && tc <= 4 }
pub fn d_bds08(a: &[u8; 7]) -> R<bds08::AircraftIdentification> { bds08::AircraftIdentification::try_from(&a[..]) }

macro_rules! at5 {
    ($f:ident, $t:ty) => {
        pub fn $f(a: &[u8; 7]) -> R<$t> {
            <$t as DekuContainerRead>::from_bytes((&a[..], 5)).map(|(_, v)| v)
        }
    };
}
at5!(d_bds09, bds09::AirborneVelocity);
at5!(d_bds61, bds61::AircraftStatus);
at5!(d_bds62, bds62::TargetStateAndStatusInformation);
at5!(d_bds65, bds65::AircraftOperationStatus);

macro_rules! commb {
    ($f:ident, $t:ty) => {
        pub fn $f(a: &[u8; 7]) -> R<$t> { <$t>::try_from(&a[..]) }
    };
}
commb!(d_bds10, bds10::DataLinkCapability);
commb!(d_bds17, bds17::CommonUsageGICBCapabilityReport);
commb!(d_bds18, bds18::GICBCapabilityReportPart1);
commb!(d_bds19, bds19::GICBCapabilityReportPart2);
commb!(d_bds20, bds20::AircraftIdentification);
commb!(d_bds21, bds21::AircraftAndAirlineRegistrationMarkings);
commb!(d_bds30, bds30::ACASResolutionAdvisory);
commb!(d_bds40, bds40::SelectedVerticalIntention);
commb!(d_bds44, bds44::MeteorologicalRoutineAirReport);
commb!(d_bds45, bds45::MeteorologicalHazardReport);
commb!(d_bds50, bds50::TrackAndTurnReport);
commb!(d_bds60, bds60::HeadingAndSpeedReport);
commb!(d_bds65_commb, bds65::AircraftOperationStatus);

/// text sink that discards everything (rendering harnesses)
pub struct NullSink;
impl core::fmt::Write for NullSink {
    fn write_str(&mut self, _s: &str) -> core::fmt::Result { Ok(()) }
}

//! C07 — every accepted message serialises to well-formed, self-consistent JSON.
//! The accepted value is serialised by the REAL serde machinery (derive output +
//! serde::__private::ser FlatMapSerializer / TaggedSerializer) into the recording serializer.
use crate::pay::*;
use crate::recser::{record, Rec};
use crate::src::Src;
use rs1090::decode::adsb::{ADSB, ME};
use rs1090::decode::commb::{DF20DataSelector, DF21DataSelector};
use rs1090::decode::{AC13Field, Capability, ControlField, ControlFieldType, DownlinkRequest, FlightStatus, IcaoParity, IdentityCode,
                     UtilityMessage, UtilityMessageType, DF, ICAO, KE};
use rs1090::prelude::*;

fn hex6(x: u32) -> [u8; 6] {
    const D: &[u8; 16] = b"0123456789abcdef";
    [D[((x >> 20) & 15) as usize], D[((x >> 16) & 15) as usize], D[((x >> 12) & 15) as usize],
     D[((x >> 8) & 15) as usize], D[((x >> 4) & 15) as usize], D[(x & 15) as usize]]
}

fn ok_clean(r: &Result<(), crate::recser::E>, rec: &Rec) {
    vassert!(r.is_ok(), "accepted value serialises");
    vassert!(!rec.dup.get(), "no duplicate key inside one JSON object");
    vassert!(!rec.nonfinite.get(), "no NaN / infinite number");
    vassert!(!rec.ctrl.get(), "no control character in a string (one line)");
}

// ------------------------------------------------------------ (a) every payload type
macro_rules! ser_me {
    ($name:ident, $dec:ident, $pre:expr, $wrap:path) => {
        harness! {
            #[kani::unwind(66)]
            #[kani::stub(alloc::fmt::format, crate::stubs::fmt_stub)]
            #[kani::stub(libm::atan2, crate::stubs::k::atan2_stub)]
            #[kani::stub(libm::hypot, crate::stubs::k::hypot_stub)]
            /// every accepted ADS-B payload of this type, wrapped in its ME variant (tag = "bds")
            fn $name(s) {
                let a: [u8; 7] = s.bytes();
                let pre: fn(&[u8; 7]) -> bool = $pre;
                vassume!(pre(&a));
                if let Ok(v) = $dec(&a) {
                    let me = $wrap(v);
                    let (r, rec) = record(&me);
                    vcover!(r.is_ok());
                    ok_clean(&r, &rec);
                    core::mem::forget(me);
                }
            }
        }
    };
}
ser_me!(ser_me_bds05, d_bds05, |a| bds05_ok_tc(tc_of(a)), ME::BDS05);
ser_me!(ser_me_bds06, d_bds06, |a| bds06_ok_tc(tc_of(a)), ME::BDS06);
ser_me!(ser_me_bds08, d_bds08, |a| bds08_ok_tc(tc_of(a)), ME::BDS08);
ser_me!(ser_me_bds09, d_bds09, |_| true, ME::BDS09);
ser_me!(ser_me_bds61, d_bds61, |_| true, ME::BDS61);
ser_me!(ser_me_bds62, d_bds62, |_| true, ME::BDS62);
ser_me!(ser_me_bds65, d_bds65, |_| true, ME::BDS65);

macro_rules! ser_commb {
    ($name:ident, $dec:ident) => {
        harness! {
            #[kani::unwind(66)]
            #[kani::stub(alloc::fmt::format, crate::stubs::fmt_stub)]
            /// every accepted Comm-B register of this type
            fn $name(s) {
                let a: [u8; 7] = s.bytes();
                if let Ok(v) = $dec(&a) {
                    let (r, rec) = record(&v);
                    vcover!(r.is_ok());
                    ok_clean(&r, &rec);
                    core::mem::forget(v);
                }
            }
        }
    };
}
ser_commb!(ser_bds10, d_bds10);
ser_commb!(ser_bds17, d_bds17);
ser_commb!(ser_bds18, d_bds18);
ser_commb!(ser_bds19, d_bds19);
ser_commb!(ser_bds20, d_bds20);
ser_commb!(ser_bds21, d_bds21);
ser_commb!(ser_bds30, d_bds30);
ser_commb!(ser_bds40, d_bds40);
ser_commb!(ser_bds44, d_bds44);
ser_commb!(ser_bds45, d_bds45);
ser_commb!(ser_bds50, d_bds50);
ser_commb!(ser_bds60, d_bds60);

// ME variants without a payload struct (type codes 0, 23, 24, 25-27, 30), decoded through ME itself
macro_rules! ser_me_tc {
    ($name:ident, $tc:expr) => {
        harness! {
            #[kani::unwind(66)]
            #[kani::stub(alloc::fmt::format, crate::stubs::fmt_stub)]
            fn $name(s) {
                let mut a: [u8; 7] = s.bytes();
                a[0] = $tc << 3;
                // read as ADSB reads it (through the reader, trailing bits left over), not with try_from,
                // whose "Too much data" check rejects these short variants
                let r = <ME as DekuContainerRead>::from_bytes((&a[..], 0));
                vcover!(r.is_ok());
                if let Ok((_, me)) = r {
                    let (r, rec) = record(&me);
                    ok_clean(&r, &rec);
                    core::mem::forget(me);
                }
            }
        }
    };
}
ser_me_tc!(ser_me_tc00, 0u8);
ser_me_tc!(ser_me_tc23, 23u8);
ser_me_tc!(ser_me_tc24, 24u8);
ser_me_tc!(ser_me_tc25, 25u8);
ser_me_tc!(ser_me_tc27, 27u8);
ser_me_tc!(ser_me_tc30, 30u8);

// ------------------------------------------------------------ (b) top level: df and icao24
fn any_capability<S: Src>(s: &mut S) -> Capability {
    match s.below(6) {
        0 => Capability::AG_LEVEL1, 1 => Capability::AG_RESERVED, 2 => Capability::AG_GROUND,
        3 => Capability::AG_AIRBORNE, 4 => Capability::AG_GROUND_AIRBORNE, _ => Capability::AG_DR0,
    }
}
fn any_fs<S: Src>(s: &mut S) -> FlightStatus {
    match s.below(8) {
        0 => FlightStatus::NoAlertNoSpiAirborne, 1 => FlightStatus::NoAlertNoSpiOnGround, 2 => FlightStatus::AlertNoSpiAirborne,
        3 => FlightStatus::AlertNoSpiOnGround, 4 => FlightStatus::AlertSpiAirborneGround, 5 => FlightStatus::NoAlertSpiAirborneGround,
        6 => FlightStatus::Reserved, _ => FlightStatus::NotAssigned,
    }
}
fn any_dr<S: Src>(s: &mut S) -> DownlinkRequest {
    match s.below(5) {
        0 => DownlinkRequest::None, 1 => DownlinkRequest::RequestSendCommB, 2 => DownlinkRequest::CommBBroadcastMsg1,
        3 => DownlinkRequest::CommBBroadcastMsg2, _ => DownlinkRequest::Unknown,
    }
}
fn any_um<S: Src>(s: &mut S) -> UtilityMessage {
    let ids = match s.below(4) { 0 => UtilityMessageType::NoInformation, 1 => UtilityMessageType::CommB, 2 => UtilityMessageType::CommC, _ => UtilityMessageType::CommD };
    UtilityMessage { iis: s.u8() & 15, ids }
}
fn any_cft<S: Src>(s: &mut S) -> ControlFieldType {
    match s.below(8) {
        0 => ControlFieldType::ADSB_ES_NT, 1 => ControlFieldType::ADSB_ES_NT_ALT, 2 => ControlFieldType::TISB_FINE, 3 => ControlFieldType::TISB_COARSE,
        4 => ControlFieldType::TISB_MANAGE, 5 => ControlFieldType::TISB_ADSB_RELAY, 6 => ControlFieldType::TISB_ADSB, _ => ControlFieldType::Reserved,
    }
}

/// top-level expectations: df label and, when given, the address
fn top_ok(m: &Message, df: &[u8], addr: Option<u32>) {
    let (r, rec) = record(m);
    vcover!(r.is_ok());
    ok_clean(&r, &rec);
    let d = rec.df.get();
    vassert!(d.count == 1 && d.eq_bytes(df), "df entry equals the downlink format");
    let i = rec.icao24.get();
    match addr {
        Some(x) => {
            // which field feeds the entry (numeric capture) …
            vassert!(i.count == 1 && i.has_num && i.num == x, "icao24 entry is fed from the address carried by the frame");
            // … and, when the hex formatting is not stubbed (native replay), its text
            #[cfg(not(kani))]
            vassert!(i.eq_bytes(&hex6(x)), "icao24 entry is the 6-hex-digit lowercase address");
        }
        None => vassert!(i.count == 0, "no icao24 entry for this format"),
    }
}

harness! {
    #[kani::unwind(17)]
    /// the hand-written Serialize of ICAO / IcaoParity ({:06x} through the REAL format machinery):
    /// six lowercase hex digits of the value, for all 2^24 addresses
    fn hex6_real_format(s) {
        let x = s.u32();
        let parity = s.bool();
        vassume!(x < (1 << 24));
        let got = if parity { crate::recser::capture_str(&IcaoParity(x)) } else { crate::recser::capture_str(&ICAO(x)) };
        let w = hex6(x);
        vcover!(x == 0xabcdef && got.is_some());
        vassert!(matches!(got, Some((b, 6)) if b[0] == w[0] && b[1] == w[1] && b[2] == w[2] && b[3] == w[3] && b[4] == w[4] && b[5] == w[5]),
                 "ICAO / IcaoParity serialise as six lowercase hex digits of the address");
    }
}

// headers of each downlink format: all header fields and addresses symbolic (one harness per format)
macro_rules! top_hdr {
    ($name:ident, $label:expr, $shown:expr, |$s:ident, $addr:ident, $other:ident, $code:ident| $mk:expr) => {
        harness! {
            #[kani::unwind(66)]
            #[kani::stub(alloc::fmt::format, crate::stubs::fmt_stub)]
            fn $name($s) {
                let $addr = $s.u32();
                let $other = $s.u32();
                let $code = $s.u16();
                vassume!($addr < (1 << 24) && $other < (1 << 24));
                let df: DF = $mk;
                let crc = match &df { DF::AllCallReply { .. } => $other, _ => $addr };
                let m = Message { crc, df };
                let label: &[u8] = $label;
                if $shown {
                    top_ok(&m, label, Some($addr));
                } else {
                    // DF19 / DF24..31 carry no "df" rename and no icao24 entry: they must still serialise cleanly
                    let (r, rec) = record(&m);
                    vcover!(r.is_ok());
                    ok_clean(&r, &rec);
                    vassert!(rec.df.get().count == 1 && rec.icao24.get().count == 0, "a df entry and no icao24 entry");
                }
                core::mem::forget(m);
            }
        }
    };
}
top_hdr!(top_df0, b"0", true, |s, addr, other, code| DF::ShortAirAirSurveillance { vs: s.u8() & 1, cc: s.u8() & 1, unused: 0, sl: s.u8() & 7, unused1: 0, ri: s.u8() & 15, unused2: 0, ac: AC13Field(code), ap: IcaoParity(addr) });
top_hdr!(top_df4, b"4", true, |s, addr, other, code| DF::SurveillanceAltitudeReply { fs: any_fs(s), dr: any_dr(s), um: any_um(s), ac: AC13Field(code), ap: IcaoParity(addr) });
top_hdr!(top_df5, b"5", true, |s, addr, other, code| DF::SurveillanceIdentityReply { fs: any_fs(s), dr: any_dr(s), um: any_um(s), id: IdentityCode(code & 0x7777), ap: IcaoParity(addr) });
top_hdr!(top_df11, b"11", true, |s, addr, other, code| DF::AllCallReply { capability: any_capability(s), icao: ICAO(addr), p_icao: ICAO(other) });
top_hdr!(top_df16, b"16", true, |s, addr, other, code| DF::LongAirAirSurveillance { vs: s.u8() & 1, reserved1: 0, sl: s.u8() & 7, reserved2: 0, ri: s.u8() & 15, reserved3: 0, ac: AC13Field(code), mv: s.bytes::<7>().to_vec(), ap: IcaoParity(addr) });
top_hdr!(top_df20_empty, b"20", true, |s, addr, other, code| DF::CommBAltitudeReply { fs: any_fs(s), dr: any_dr(s), um: any_um(s), ac: AC13Field(code), bds: DF20DataSelector::default(), ap: IcaoParity(addr) });
top_hdr!(top_df21_empty, b"21", true, |s, addr, other, code| DF::CommBIdentityReply { fs: any_fs(s), dr: any_dr(s), um: any_um(s), id: IdentityCode(code & 0x7777), bds: DF21DataSelector::default(), ap: IcaoParity(addr) });
top_hdr!(top_df19, b"", false, |s, addr, other, code| DF::ExtendedSquitterMilitary { af: s.u8() & 7 });
top_hdr!(top_df24, b"", false, |s, addr, other, code| DF::CommDExtended { spare: 0, ke: if s.bool() { KE::DownlinkELMTx } else { KE::UplinkELMAck }, nd: s.u8() & 15, md: s.bytes::<10>().to_vec(), parity: ICAO(addr) });

macro_rules! top_adsb {
    ($name:ident, $dec:ident, $pre:expr, $wrap:path) => {
        harness! {
            #[kani::unwind(66)]
            #[kani::stub(alloc::fmt::format, crate::stubs::fmt_stub)]
            #[kani::stub(libm::atan2, crate::stubs::k::atan2_stub)]
            #[kani::stub(libm::hypot, crate::stubs::k::hypot_stub)]
            /// DF17 and DF18 records carrying every accepted payload of this type: serialises, no
            /// key clash between header and payload, df and icao24 (announced address AA) as carried
            fn $name(s) {
                let a: [u8; 7] = s.bytes();
                let addr = s.u32();
                let other = s.u32();
                let tisb = s.bool();
                vassume!(addr < (1 << 24) && other < (1 << 24));
                let cap = any_capability(s);
                let cft = any_cft(s);
                let pre: fn(&[u8; 7]) -> bool = $pre;
                vassume!(pre(&a));
                if let Ok(v) = $dec(&a) {
                    let me = $wrap(v);
                    let (df, label): (DF, &[u8]) = if tisb {
                        (DF::ExtendedSquitterTisB { cf: ControlField { field_type: cft, aa: ICAO(addr), me }, pi: ICAO(other) }, b"18")
                    } else {
                        (DF::ExtendedSquitterADSB(ADSB { capability: cap, icao24: ICAO(addr), message: me, parity: ICAO(other) }), b"17")
                    };
                    let m = Message { crc: 0, df };
                    top_ok(&m, label, Some(addr));
                    core::mem::forget(m);
                }
            }
        }
    };
}
top_adsb!(top_adsb_bds05, d_bds05, |a| bds05_ok_tc(tc_of(a)), ME::BDS05);
top_adsb!(top_adsb_bds06, d_bds06, |a| bds06_ok_tc(tc_of(a)), ME::BDS06);
top_adsb!(top_adsb_bds08, d_bds08, |a| bds08_ok_tc(tc_of(a)), ME::BDS08);
top_adsb!(top_adsb_bds09, d_bds09, |_| true, ME::BDS09);
top_adsb!(top_adsb_bds61, d_bds61, |_| true, ME::BDS61);
top_adsb!(top_adsb_bds62, d_bds62, |_| true, ME::BDS62);
top_adsb!(top_adsb_bds65, d_bds65, |_| true, ME::BDS65);

harness! {
    #[kani::unwind(66)]
    #[kani::stub(alloc::fmt::format, crate::stubs::fmt_stub)]
    /// DF17 and DF18 records around the payload-less ME variant (type code 0): the HEADER of the extended-squitter
    /// records - df label, icao24 fed from the announced address, no key clash - in the quick tier (the records around
    /// every accepted payload of every type are `top_adsb_*`)
    fn top_adsb_tc00(s) {
        let mut a: [u8; 7] = s.bytes();
        a[0] = 0;
        let addr = s.u32();
        let other = s.u32();
        let tisb = s.bool();
        vassume!(addr < (1 << 24) && other < (1 << 24));
        let cap = any_capability(s);
        let cft = any_cft(s);
        let r = <ME as DekuContainerRead>::from_bytes((&a[..], 0));
        vcover!(r.is_ok());
        if let Ok((_, me)) = r {
            let (df, label): (DF, &[u8]) = if tisb {
                (DF::ExtendedSquitterTisB { cf: ControlField { field_type: cft, aa: ICAO(addr), me }, pi: ICAO(other) }, b"18")
            } else {
                (DF::ExtendedSquitterADSB(ADSB { capability: cap, icao24: ICAO(addr), message: me, parity: ICAO(other) }), b"17")
            };
            let m = Message { crc: 0, df };
            top_ok(&m, label, Some(addr));
            core::mem::forget(m);
        }
    }
}

macro_rules! top_commb {
    ($name:ident, $dec:ident, $field:ident) => {
        harness! {
            #[kani::unwind(66)]
            #[kani::stub(alloc::fmt::format, crate::stubs::fmt_stub)]
            /// DF20 and DF21 records whose selector holds every accepted register of this type
            fn $name(s) {
                let a: [u8; 7] = s.bytes();
                let addr = s.u32();
                let code = s.u16();
                let alt = s.bool();
                vassume!(addr < (1 << 24));
                let (fs, dr, um) = (any_fs(s), any_dr(s), any_um(s));
                if let Ok(v) = $dec(&a) {
                    let ap = IcaoParity(addr);
                    let (df, label): (DF, &[u8]) = if alt {
                        (DF::CommBAltitudeReply { fs, dr, um, ac: AC13Field(code), bds: DF20DataSelector { $field: Some(v), ..Default::default() }, ap }, b"20")
                    } else {
                        (DF::CommBIdentityReply { fs, dr, um, id: IdentityCode(code & 0x7777), bds: DF21DataSelector { $field: Some(v), ..Default::default() }, ap }, b"21")
                    };
                    let m = Message { crc: addr, df };
                    top_ok(&m, label, Some(addr));
                    core::mem::forget(m);
                }
            }
        }
    };
}
top_commb!(top_commb_bds10, d_bds10, bds10);
top_commb!(top_commb_bds17, d_bds17, bds17);
top_commb!(top_commb_bds20, d_bds20, bds20);
top_commb!(top_commb_bds30, d_bds30, bds30);
top_commb!(top_commb_bds40, d_bds40, bds40);
top_commb!(top_commb_bds44, d_bds44, bds44);
top_commb!(top_commb_bds45, d_bds45, bds45);
top_commb!(top_commb_bds50, d_bds50, bds50);
top_commb!(top_commb_bds60, d_bds60, bds60);
top_commb!(top_commb_bds05, d_bds05, bds05);

/// hex::encode by its documented contract ("encodes data as a lowercase hex string", two digits per
/// byte): the REAL hex::encode collects `char`s into a String, whose UTF-8 encoder branches four ways
/// on every (symbolic) digit and makes the string length symbolic — timed_frame_* did not finish in
/// 20 / 30 min with it.  The real function is decided separately on 1- and 2-byte inputs (hex_real_*).
pub fn hex_encode_contract<T: AsRef<[u8]>>(data: T) -> String {
    const D: &[u8; 16] = b"0123456789abcdef";
    let d = data.as_ref();
    let mut v: Vec<u8> = Vec::with_capacity(2 * d.len());
    let mut i = 0;
    while i < d.len() {
        v.push(D[(d[i] >> 4) as usize]);
        v.push(D[(d[i] & 15) as usize]);
        i += 1;
    }
    unsafe { String::from_utf8_unchecked(v) }
}

macro_rules! timed {
    ($name:ident, $n:expr) => {
        harness! {
            #[kani::unwind(66)]
            #[kani::stub(alloc::fmt::format, crate::stubs::fmt_stub)]
            #[kani::stub(hex::encode, hex_encode_contract)]
            /// a timed record keeps the input frame as lowercase hex (no decoded message); hex::encode
            /// (third-party) by contract, the rest — TimedMessage's derived Serialize, as_hex, the
            /// flattened absent message — is the real code
            fn $name(s) {
                const N: usize = $n;
                let f: [u8; N] = s.bytes();
                let ts = s.u32();
                let t = TimedMessage { timestamp: ts as f64, frame: f.to_vec(), message: None, metadata: vec![], decode_time: None };
                let (r, rec) = record(&t);
                vcover!(r.is_ok());
                ok_clean(&r, &rec);
                let fr = rec.frame.get();
                vassert!(fr.count == 1 && fr.is_str && fr.len == 2 * N, "frame entry is a string of 2 hex digits per byte");
                const D: &[u8; 16] = b"0123456789abcdef";
                let mut i = 0;
                while i < N {
                    vassert!(fr.buf[2 * i] == D[(f[i] >> 4) as usize] && fr.buf[2 * i + 1] == D[(f[i] & 15) as usize], "frame entry is the lowercase hex of the input bytes");
                    i += 1;
                }
                core::mem::forget(t);
            }
        }
    };
}

macro_rules! hex_real {
    ($name:ident, $n:expr) => {
        harness! {
            #[kani::unwind(12)]
            /// the REAL hex::encode on every input of this length: two lowercase hex digits per byte, in order
            fn $name(s) {
                const N: usize = $n;
                let f: [u8; N] = s.bytes();
                let h = hex::encode(&f[..]);
                let b = h.as_bytes();
                vcover!(b.len() == 2 * N);
                vassert!(b.len() == 2 * N, "two digits per byte");
                const D: &[u8; 16] = b"0123456789abcdef";
                let mut i = 0;
                while i < N {
                    vassert!(b[2 * i] == D[(f[i] >> 4) as usize] && b[2 * i + 1] == D[(f[i] & 15) as usize], "lowercase hex of the input bytes");
                    i += 1;
                }
                core::mem::forget(h);
            }
        }
    };
}
hex_real!(hex_real_1, 1);
timed!(timed_frame_short, 7);
timed!(timed_frame_long, 14);


// ------------------------------------------------------------ (d) Comm-B selector with EVERY combination of registers
// (the shape space "every Comm-B register combination" of the property): the selector value produced by
// the real reader of commb.rs, with each register hypothesis accepting (a sample value) or rejecting
// nondeterministically (selstubs.rs), is serialised: Ok, no duplicate key, finite numbers.
with_selector_stubs! {
    fn ser_selector_df20(s) {
        let a: [u8; 7] = s.bytes();
        let ac = s.u16();
        let mut cur = deku::no_std_io::Cursor::new(&a[..]);
        let mut reader = Reader::new(&mut cur);
        if let Ok(sel) = DF20DataSelector::from_reader_with_ctx(&mut reader, AC13Field(ac)) {
            let (r, rec) = record(&sel);
            vcover!(r.is_ok() && sel.bds40.is_some() && sel.bds50.is_some() && sel.bds60.is_some() && sel.bds05.is_some());
            ok_clean(&r, &rec);
            core::mem::forget(sel);
        }
    }
}
with_selector_stubs! {
    fn ser_selector_df21(s) {
        let a: [u8; 7] = s.bytes();
        let mut cur = deku::no_std_io::Cursor::new(&a[..]);
        let mut reader = Reader::new(&mut cur);
        if let Ok(sel) = DF21DataSelector::from_reader_with_ctx(&mut reader, ()) {
            let (r, rec) = record(&sel);
            vcover!(r.is_ok() && sel.bds40.is_some() && sel.bds50.is_some() && sel.bds60.is_some() && sel.bds17.is_some());
            ok_clean(&r, &rec);
            core::mem::forget(sel);
        }
    }
}

registry!(ser_selector_df20, ser_selector_df21, ser_me_bds05, ser_me_bds06, ser_me_bds08, ser_me_bds09, ser_me_bds61, ser_me_bds62, ser_me_bds65, ser_me_tc00, ser_me_tc23, ser_me_tc24, ser_me_tc25, ser_me_tc27, ser_me_tc30,
          ser_bds10, ser_bds17, ser_bds18, ser_bds19, ser_bds20, ser_bds21, ser_bds30, ser_bds40, ser_bds44, ser_bds45, ser_bds50, ser_bds60,
          hex6_real_format, top_df0, top_df4, top_df5, top_df11, top_df16, top_df20_empty, top_df21_empty, top_df19, top_df24,
          top_adsb_tc00, top_adsb_bds05, top_adsb_bds06, top_adsb_bds08, top_adsb_bds09, top_adsb_bds61, top_adsb_bds62, top_adsb_bds65,
          top_commb_bds10, top_commb_bds17, top_commb_bds20, top_commb_bds30, top_commb_bds40, top_commb_bds44, top_commb_bds45,
          top_commb_bds50, top_commb_bds60, top_commb_bds05,
          timed_frame_short, timed_frame_long, hex_real_1);

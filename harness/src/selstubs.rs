//! Contract stubs for the Comm-B register readers, used by the harnesses that decide the GLUE of
//! DF20DataSelector / DF21DataSelector (commb.rs): each register's own reader is decided on all 2^56
//! payloads by its own harnesses (C01 total_*, C03 *_fields, C07 ser_*, C08 range_*); here
//! `<Register as TryFrom<&[u8]>>::try_from` is replaced by "fails, or succeeds with a sample value of
//! the register (a payload taken from the repository's tests, decoded by the real reader)", chosen
//! nondeterministically, and the choice is recorded (ghost state) so that the harness can assert that
//! the selector stores exactly the hypotheses that succeeded.
#![cfg(kani)]
use rs1090::decode::bds::{bds10, bds17, bds18, bds19, bds20, bds21, bds30, bds40, bds44, bds45, bds50, bds60, bds65};
use rs1090::prelude::*;

/// bit i set <=> hypothesis i was offered the payload and accepted it
pub static mut ACCEPTED: u32 = 0;
/// bit i set <=> hypothesis i was called
pub static mut CALLED: u32 = 0;

macro_rules! reg_stub {
    ($f:ident, $t:ty, $bit:expr, $sample:expr) => {
        pub fn $f<'a>(_b: &'a [u8]) -> Result<$t, DekuError> where 'a: 'a {
            unsafe { CALLED |= 1 << $bit; }
            if kani::any() {
                let smp: [u8; 7] = $sample;
                let r = <$t as DekuContainerRead>::from_bytes((&smp[..], 0)).map(|(_, v)| v);
                if r.is_ok() { unsafe { ACCEPTED |= 1 << $bit; } }
                r
            } else {
                Err(DekuError::Parse(std::borrow::Cow::Borrowed("hypothesis rejected (stub)")))
            }
        }
    };
}
reg_stub!(s_bds10, bds10::DataLinkCapability, 1, [0x10, 0x01, 0x00, 0x80, 0xf5, 0x00, 0x00]);
reg_stub!(s_bds17, bds17::CommonUsageGICBCapabilityReport, 2, [0xfa, 0x81, 0xc1, 0x00, 0x00, 0x00, 0x00]);
reg_stub!(s_bds18, bds18::GICBCapabilityReportPart1, 3, [0x00, 0x80, 0x00, 0x8f, 0xc0, 0x83, 0xf0]);
reg_stub!(s_bds19, bds19::GICBCapabilityReportPart2, 4, [0x00, 0x01, 0x80, 0x03, 0x80, 0x00, 0x80]);
reg_stub!(s_bds20, bds20::AircraftIdentification, 5, [0x20, 0x15, 0x84, 0xf2, 0x34, 0x68, 0x20]);
reg_stub!(s_bds21, bds21::AircraftAndAirlineRegistrationMarkings, 6, [0x94, 0x0f, 0x19, 0x68, 0x0c, 0x00, 0x00]);
reg_stub!(s_bds30, bds30::ACASResolutionAdvisory, 7, [0x30, 0x80, 0x00, 0x08, 0x00, 0x00, 0x3c]);
reg_stub!(s_bds40, bds40::SelectedVerticalIntention, 8, [0x85, 0xe4, 0x2f, 0x31, 0x30, 0x00, 0x00]);
reg_stub!(s_bds44, bds44::MeteorologicalRoutineAirReport, 9, [0x18, 0x5b, 0xd5, 0xcf, 0x40, 0x00, 0x00]);
reg_stub!(s_bds45, bds45::MeteorologicalHazardReport, 10, [0x00, 0x01, 0xfb, 0x80, 0x00, 0x00, 0x00]);
reg_stub!(s_bds50, bds50::TrackAndTurnReport, 11, [0x81, 0x95, 0x15, 0x36, 0xe0, 0x24, 0xd4]);
reg_stub!(s_bds60, bds60::HeadingAndSpeedReport, 12, [0xa7, 0x4a, 0x07, 0x2b, 0xfd, 0xef, 0xc1]);
reg_stub!(s_bds65, bds65::AircraftOperationStatus, 13, [0xf8, 0x00, 0x00, 0x00, 0x00, 0x00, 0x00]);

//! C04 — global CPR decoding (rs1090::decode::cpr::airborne_position) returns the true position
//! or nothing.
//!
//! Oracle without any floating-point encoder (DESIGN 3/C04): a point of latitude `lat`
//! encodes, for parity i, to the *extended* count E_i = floor(lat / Dlat_i * 2^17 + 1/2)
//! (transmitted: YZ_i = E_i mod 2^17).  With t = lat * 2^17 / 360 the set of points with
//! extended count E_0 is  60 t in [E_0 - 1/2, E_0 + 1/2)  and with E_1 is
//! 59 t in [E_1 - 1/2, E_1 + 1/2).  Both reports come from one point iff these half-open
//! intervals intersect, an INTEGER condition after scaling by 2*59*60.  The decoder is right
//! iff it returns the centre of the cell of the later report, Dlat_p * E_p / 2^17 (every point
//! of the cell is within 2.6 m of it).  Longitude: same construction with NL(lat) zones.
use crate::src::Src;
use rs1090::decode::bds::bds05::AirbornePosition;
use rs1090::decode::cpr::{airborne_position, Position};
use rs1090::prelude::*;

include!("gen/nl_table.rs");

pub const P17: i64 = 131072;

/// NL(lat) from the transition latitudes of the closed formula (independent of cpr.rs)
pub fn nl_ref(lat: f64) -> i64 {
    let a = if lat < 0.0 { -lat } else { lat };
    if a >= 87.0 { return 1; }
    let mut i = 0;
    while i < 58 {
        if a < NL_BOUND[i] { return 59 - i as i64; }
        i += 1;
    }
    1
}
/// |lat| within 1e-9 of a transition latitude: the oracle does not decide NL there
pub fn nl_borderline(lat: f64) -> bool {
    let a = if lat < 0.0 { -lat } else { lat };
    let mut i = 0;
    while i < 58 {
        let d = a - NL_BOUND[i];
        if d > -1e-9 && d < 1e-9 { return true; }
        i += 1;
    }
    let d = a - 87.0;
    d > -1e-9 && d < 1e-9
}

/// airborne position report with the given parity and 17-bit counts, obtained by decoding a
/// BDS 0,5 payload (tc = 11, altitude 38000 ft) through the real reader
pub fn report(odd: bool, yz: u32, xz: u32) -> AirbornePosition {
    let f = if odd { 0x04u8 } else { 0x00 };
    let b = [
        11u8 << 3,
        0xc3,
        0x80 | f | ((yz >> 15) & 0x03) as u8,
        (yz >> 7) as u8,
        (((yz & 0x7f) << 1) | ((xz >> 16) & 1)) as u8,
        (xz >> 8) as u8,
        xz as u8,
    ];
    AirbornePosition::try_from(&b[..]).unwrap()
}

/// D * (k mod n + YZ / 2^17), minus 360 when >= 270 (southern hemisphere), E = k * 2^17 + YZ
fn centre(d: f64, e: i64, n: i64) -> f64 {
    let k = e.div_euclid(P17).rem_euclid(n);
    let yz = e.rem_euclid(P17);
    let v = d * (k as f64 + (yz as f64) / 131072.0);
    if v >= 270.0 { v - 360.0 } else { v }
}
/// longitude cell centre: (360 / ni) * (m mod ni + XZ / 2^17), minus 360 when >= 180
fn lon_centre(ni: i64, f: i64) -> f64 {
    let m = f.div_euclid(P17).rem_euclid(ni);
    let xz = f.rem_euclid(P17);
    let v = (360.0 / ni as f64) * (m as f64 + (xz as f64) / 131072.0);
    if v >= 180.0 { v - 360.0 } else { v }
}

fn close(a: f64, b: f64) -> bool {
    let d = a - b;
    d > -1e-9 && d < 1e-9
}
fn close_mod360(a: f64, b: f64) -> bool {
    close(a, b) || close(a, b + 360.0) || close(a, b - 360.0)
}

/// do the even cell E0 and the odd cell E1 (factors n0, n1: n0*t in [E0-1/2, E0+1/2), n1*t in
/// [E1-1/2, E1+1/2)) share a point t in [tmin, tmax]?  all integers, scaled by 2*n0*n1
fn cells_meet(e0: i64, n0: i64, e1: i64, n1: i64, tmin: i64, tmax: i64) -> bool {
    let lo0 = n1 * (2 * e0 - 1);
    let hi0 = n1 * (2 * e0 + 1);
    let lo1 = n0 * (2 * e1 - 1);
    let hi1 = n0 * (2 * e1 + 1);
    let lo = if lo0 > lo1 { lo0 } else { lo1 };
    let hi = if hi0 < hi1 { hi0 } else { hi1 };
    // half-open intervals [lo, hi) in units of 1/(2 n0 n1); clip to [tmin, tmax]
    lo < hi && lo <= 2 * n0 * n1 * tmax && hi > 2 * n0 * n1 * tmin
}

macro_rules! lat_exact {
    ($name:ident, $zone:expr, $odd_last:expr, $south:expr) => {
        harness! {
            #[kani::unwind(60)]
            #[kani::stub(alloc::fmt::format, crate::stubs::fmt_stub)]
            /// latitude stage, every pair of extended counts whose cells share a latitude in
            /// [-90, 90], even count in latitude zone $zone of one hemisphere, one report order
            /// (longitude counts 0)
            fn $name(s) {
                const Z: i64 = $zone;
                let e0 = s.i64();
                let e1 = s.i64();
                let top = if Z == 14 { 15 * P17 } else { (Z + 1) * P17 - 1 }; // zone 14 includes lat = 90
                if $south {
                    vassume!(e0 <= -Z * P17 && e0 >= -top);
                    vassume!(e1 <= 0 && e1 >= -59 * 32768);
                } else {
                    vassume!(e0 >= Z * P17 && e0 <= top);
                    vassume!(e1 >= 0 && e1 <= 59 * 32768);
                }
                vassume!(cells_meet(e0, 60, e1, 59, -32768, 32768));
                let even = report(false, e0.rem_euclid(P17) as u32, 0);
                let odd = report(true, e1.rem_euclid(P17) as u32, 0);
                let r = if $odd_last { airborne_position(&even, &odd) } else { airborne_position(&odd, &even) };
                // cell centres, written with the zone index and the transmitted count separated
                // (zone index modulo 60 / 59 and the southern wrap exactly as DO-260B A.1.7.7 prescribes),
                // so that a correct decoder produces the bit-identical double
                let r0 = centre(6.0, e0, 60);
                let r1 = centre(360.0 / 59.0, e1, 59);
                vcover!(r.is_some());
                match r {
                    None => vassert!(nl_ref(r0) != nl_ref(r1) || nl_borderline(r0) || nl_borderline(r1),
                                     "no position only when the two reports are in different longitude-zone bands"),
                    Some(p) => {
                        let want = if $odd_last { r1 } else { r0 };
                        // a pair whose two latitudes lie in different NL bands has no common number of longitude
                        // zones: any longitude computed from it is wrong for all but special longitude counts
                        // (here the counts are 0 and the longitude happens to be 0 either way), so the decoder must
                        // not return a position for it (DO-260B A.1.7.7 e)
                        vassert!(nl_ref(r0) == nl_ref(r1) || nl_borderline(r0) || nl_borderline(r1),
                                 "a position is returned only when both reports are in the same longitude-zone band");
                        vassert!(p.latitude >= -90.0 && p.latitude <= 90.0, "latitude in [-90, 90]");
                        vassert!(close(p.latitude, want), "latitude is the centre of the true cell");
                        vassert!(p.longitude >= -180.0 && p.longitude < 180.0, "longitude in [-180, 180)");
                    }
                }
            }
        }
    };
}

// (cutting a zone into quarters of the even count does not make the pieces cheaper: a quarter was still running after 13 min;
// the latitude-exactness harnesses are thorough-tier)

include!("gen/c04_lat.rs");

macro_rules! lon_exact {
    ($name:ident, $nl:expr, $odd_last:expr, $south:expr) => { lon_exact!($name, $nl, $odd_last, $south, 0, 59); };
    ($name:ident, $nl:expr, $odd_last:expr, $south:expr, $zlo:expr, $zhi:expr) => {
        harness! {
            #[kani::unwind(60)]
            #[kani::stub(alloc::fmt::format, crate::stubs::fmt_stub)]
            /// longitude stage at a latitude in band NL = $nl: every pair of extended longitude
            /// counts whose cells share a longitude in [0, 360)
            fn $name(s) {
                const NL: i64 = $nl;
                const N0: i64 = NL;
                const N1: i64 = if NL > 1 { NL - 1 } else { 1 };
                let (le0, le1) = if $south { (-NL_REP[$nl].0, -NL_REP[$nl].1) } else { NL_REP[$nl] };
                let f0 = s.i64();
                let f1 = s.i64();
                vassume!(f0 >= 0 && f0 <= N0 * P17 && f1 >= 0 && f1 <= N1 * P17);
                // even longitude count restricted to longitude zones $zlo..=$zhi (the top zone includes the wrap count)
                vassume!(f0 >= $zlo * P17 && f0 < ($zhi + 1) * P17 + if $zhi + 1 >= N0 { 1 } else { 0 });
                // s = lon * 2^17 / 360 in [0, 2^17): N0*s in even cell, N1*s in odd cell
                vassume!(cells_meet(f0, N0, f1, N1, 0, P17));
                vassume!(2 * f0 - 1 < 2 * N0 * P17 && 2 * f1 - 1 < 2 * N1 * P17); // lon < 360
                let even = report(false, le0.rem_euclid(P17) as u32, f0.rem_euclid(P17) as u32);
                let odd = report(true, le1.rem_euclid(P17) as u32, f1.rem_euclid(P17) as u32);
                let r = if $odd_last { airborne_position(&even, &odd) } else { airborne_position(&odd, &even) };
                vcover!(r.is_some());
                vassert!(r.is_some(), "a consistent pair inside one NL band decodes");
                if let Some(p) = r {
                    let want = if $odd_last { lon_centre(N1, f1) } else { lon_centre(N0, f0) };
                    vassert!(p.longitude >= -180.0 && p.longitude < 180.0, "longitude in [-180, 180)");
                    vassert!(close_mod360(p.longitude, want), "longitude is the centre of the true cell");
                    vassert!(nl_ref(p.latitude) == NL, "latitude stays in its band");
                }
            }
        }
    };
}
include!("gen/c04_lon.rs");
lon_exact!(probe_nl30_odd_z7, 30, true, false, 7, 7);
lon_exact!(probe_nl30_odd_z0_4, 30, true, false, 0, 4);

harness! {
    #[kani::unwind(60)]
    #[kani::stub(alloc::fmt::format, crate::stubs::fmt_stub)]
    /// the decoder's NL table against the closed formula of DO-260B, observed through the public
    /// reference decoder: for EVERY even-report cell latitude in [-90, 90] (15 x 2^17 points per
    /// hemisphere, 4.6e-5 degrees apart) a report with longitude count 2^16 decoded against the
    /// reference (that latitude, 1 degree east) comes back at longitude 180 / NL(lat)
    fn nl_table_vs_formula(s) {
        let e = s.i64();
        vassume!(e >= -15 * P17 && e <= 15 * P17);
        let lat = centre(6.0, e, 60);
        vassume!(!nl_borderline(lat));
        let msg = report(false, e.rem_euclid(P17) as u32, 65536);
        let r = rs1090::decode::cpr::airborne_position_with_reference(&msg, lat, 1.0);
        vcover!(r.is_some() && e < 0);
        vassert!(r.is_some(), "reference decoding at the cell's own latitude succeeds");
        if let Some(p) = r {
            vassert!(close(p.latitude, lat), "latitude is the cell centre");
            vassert!(close(p.longitude * nl_ref(lat) as f64, 180.0), "number of longitude zones equals NL(lat) of the closed formula");
        }
    }
}

// the same check cut into six latitude bands of five zones (the quick command has 900 s for build + run; the whole range in
// one query takes 16 min)
macro_rules! nl_table_part {
    ($name:ident, $lo:expr, $hi:expr) => {
        harness! {
            #[kani::unwind(60)]
            #[kani::stub(alloc::fmt::format, crate::stubs::fmt_stub)]
            fn $name(s) {
                let e = s.i64();
                vassume!(e >= $lo * P17 && e <= $hi * P17);
                let lat = centre(6.0, e, 60);
                vassume!(!nl_borderline(lat));
                let msg = report(false, e.rem_euclid(P17) as u32, 65536);
                let r = rs1090::decode::cpr::airborne_position_with_reference(&msg, lat, 1.0);
                vcover!(r.is_some());
                vassert!(r.is_some(), "reference decoding at the cell's own latitude succeeds");
                if let Some(p) = r {
                    vassert!(close(p.latitude, lat), "latitude is the cell centre");
                    vassert!(close(p.longitude * nl_ref(lat) as f64, 180.0), "number of longitude zones equals NL(lat) of the closed formula");
                }
            }
        }
    };
}
nl_table_part!(nl_table_s3, -15, -10);
nl_table_part!(nl_table_s2, -10, -5);
nl_table_part!(nl_table_s1, -5, 0);
nl_table_part!(nl_table_n1, 0, 5);
nl_table_part!(nl_table_n2, 5, 10);
nl_table_part!(nl_table_n3, 10, 15);

harness! {
    #[kani::unwind(60)]
    #[kani::stub(alloc::fmt::format, crate::stubs::fmt_stub)]
    /// a pair with the same parity never yields a position (all counts, both parities)
    fn same_parity_none(s) {
        let odd = s.bool();
        let (y0, x0, y1, x1) = (s.u32(), s.u32(), s.u32(), s.u32());
        vassume!(y0 < 131072 && x0 < 131072 && y1 < 131072 && x1 < 131072);
        let a = report(odd, y0, x0);
        let b = report(odd, y1, x1);
        vcover!(odd);
        vassert!(airborne_position(&a, &b).is_none(), "same-parity pair yields no position");
    }
}

harness! {
    #[kani::unwind(60)]
    #[kani::stub(alloc::fmt::format, crate::stubs::fmt_stub)]
    /// ANY pair of reports (all 2^68 count combinations, either order), consistent or not:
    /// no panic, and a returned position is finite with latitude in [-90, 90], longitude in [-180, 180)
    fn range_any_pair(s) {
        let odd_last = s.bool();
        let (y0, x0, y1, x1) = (s.u32(), s.u32(), s.u32(), s.u32());
        vassume!(y0 < 131072 && x0 < 131072 && y1 < 131072 && x1 < 131072);
        let even = report(false, y0, x0);
        let odd = report(true, y1, x1);
        let r = if odd_last { airborne_position(&even, &odd) } else { airborne_position(&odd, &even) };
        vcover!(r.is_some());
        if let Some(p) = r {
            vassert!(p.latitude >= -90.0 && p.latitude <= 90.0, "latitude in [-90, 90]");
            vassert!(p.longitude >= -180.0 && p.longitude < 180.0, "longitude in [-180, 180)");
        }
    }
}

pub const BASE: &[(&str, fn(&mut crate::src::Tape))] = &[
    (concat!(module_path!(), "::nl_table_vs_formula"), nl_table_vs_formula::replay),
    (concat!(module_path!(), "::nl_table_s3"), nl_table_s3::replay),
    (concat!(module_path!(), "::nl_table_s2"), nl_table_s2::replay),
    (concat!(module_path!(), "::nl_table_s1"), nl_table_s1::replay),
    (concat!(module_path!(), "::nl_table_n1"), nl_table_n1::replay),
    (concat!(module_path!(), "::nl_table_n2"), nl_table_n2::replay),
    (concat!(module_path!(), "::nl_table_n3"), nl_table_n3::replay),
    (concat!(module_path!(), "::same_parity_none"), same_parity_none::replay),
    (concat!(module_path!(), "::range_any_pair"), range_any_pair::replay),
];

//! C03 — field decoding inverts the standard's encoding.  The payload is fully symbolic; the
//! harness extracts each field's CODE independently, by the bit positions of DO-260B / Annex 10
//! (1-based ME bit numbers), computes the physical value the standard assigns to that code and
//! compares it with the decoder's field.  Sentinel "not available" codes are outside.
use crate::pay::*;
use crate::src::Src;
use rs1090::decode::bds::bds09::AirborneVelocitySubType;
use rs1090::prelude::*;

/// bits first..=last (1-based, MSB first) of the 56-bit payload
fn field(a: &[u8; 7], first: usize, last: usize) -> u32 {
    let mut v: u32 = 0;
    let mut i = first - 1;
    while i < last {
        v = (v << 1) | ((a[i / 8] >> (7 - (i % 8))) & 1) as u32;
        i += 1;
    }
    v
}
fn near(a: f64, b: f64, tol: f64) -> bool { let d = a - b; d >= -tol && d <= tol }

/// Annex 10 vol. IV table 3-9: 6-bit character set (undefined codes are rendered '#', space is dropped by rs1090)
fn ia5(c: u32) -> Option<u8> {
    if c >= 1 && c <= 26 { Some(b'A' + (c as u8 - 1)) }
    else if c >= 48 && c <= 57 { Some(b'0' + (c as u8 - 48)) }
    else if c == 32 { None }
    else { Some(b'#') }
}

macro_rules! callsign {
    ($name:ident, $dec:ident, $pre:expr) => {
        harness! {
            #[kani::unwind(20)]
            #[kani::stub(alloc::fmt::format, crate::stubs::fmt_stub)]
            /// all 64^8 call signs: character i of the decoded string is the table image of the
            /// i-th non-space 6-bit code (bits 9..56)
            fn $name(s) {
                let a: [u8; 7] = s.bytes();
                let pre: fn(&[u8; 7]) -> bool = $pre;
                vassume!(pre(&a));
                if let Ok(m) = $dec(&a) {
                    let got = m.callsign.as_bytes();
                    let mut n = 0usize;
                    let mut k = 0;
                    while k < 8 {
                        if let Some(ch) = ia5(field(&a, 9 + 6 * k, 14 + 6 * k)) {
                            vassert!(n < got.len() && got[n] == ch, "call sign character equals the 6-bit table image");
                            n += 1;
                        }
                        k += 1;
                    }
                    vcover!(n == 8);
                    vassert!(got.len() == n, "call sign has one character per non-space code");
                    core::mem::forget(m);
                }
            }
        }
    };
}
callsign!(callsign_bds08, d_bds08, |a| bds08_ok_tc(tc_of(a)));
callsign!(callsign_bds20, d_bds20, |_| true);

// ---- ghost-state contract stubs: record arguments and results of libm::atan2 / hypot
#[cfg(kani)]
pub mod ghost {
    pub static mut ATAN2: (f64, f64, f64, u32) = (0.0, 0.0, 0.0, 0);
    pub static mut HYPOT: (f64, f64, f64, u32) = (0.0, 0.0, 0.0, 0);
    pub fn atan2(y: f64, x: f64) -> f64 {
        let r = crate::stubs::k::atan2_stub(y, x);
        unsafe { ATAN2 = (y, x, r, ATAN2.3 + 1); }
        r
    }
    pub fn hypot(x: f64, y: f64) -> f64 {
        let r = crate::stubs::k::hypot_stub(x, y);
        unsafe { HYPOT = (x, y, r, HYPOT.3 + 1); }
        r
    }
}

harness! {
    #[kani::unwind(20)]
    #[kani::stub(alloc::fmt::format, crate::stubs::fmt_stub)]
    #[kani::stub(libm::atan2, ghost::atan2)]
    #[kani::stub(libm::hypot, ghost::hypot)]
    /// BDS 0,9: all 2x1023 x 2x1023 velocity pairs of subtype 1, heading / airspeed codes of
    /// subtypes 3 and 4, all 2x511 vertical rates, all 2x126 GNSS-baro differences
    fn bds09_fields(s) {
        let a: [u8; 7] = s.bytes();
        let r = d_bds09(&a);
        if let Ok(m) = &r {
            let st = field(&a, 6, 8);
            match &m.velocity {
                AirborneVelocitySubType::GroundSpeedDecoding(g) => {
                    let (dew, vew, dns, vns) = (field(&a, 14, 14), field(&a, 15, 24), field(&a, 25, 25), field(&a, 26, 35));
                    vassert!(st == 1 || st == 2, "ground-speed layout only for subtypes 1 and 2");
                    if st == 1 && vew >= 1 && vns >= 1 {
                        let ew = (vew as f64 - 1.0) * if dew == 1 { -1.0 } else { 1.0 };
                        let ns = (vns as f64 - 1.0) * if dns == 1 { -1.0 } else { 1.0 };
                        vcover!(vew == 1023 && vns == 1023 && dew == 1);
                        vassert!(g.ew_vel == ew && g.ns_vel == ns, "signed velocity components (kt)");
                        #[cfg(kani)]
                        unsafe {
                            let (y, x, ret, n) = ghost::ATAN2;
                            vassert!(n == 1 && y == ew && x == ns, "track angle = atan2(east-west, north-south)");
                            let deg = ret * (360.0 / (2.0 * core::f64::consts::PI));
                            let want = if deg < 0.0 { deg + 360.0 } else { deg };
                            vassert!(near(g.track, want, 1e-9), "track = angle in degrees wrapped into [0, 360)");
                            let (hx, hy, hret, hn) = ghost::HYPOT;
                            let (ax, ay) = (if ew < 0.0 { -ew } else { ew }, if ns < 0.0 { -ns } else { ns });
                            vassert!(hn == 1 && ((hx == ax && hy == ay) || (hx == ay && hy == ax)) && g.groundspeed == hret, "ground speed = hypot of the two components");
                        }
                        #[cfg(not(kani))]
                        {
                            let gs = (ew * ew + ns * ns).sqrt();
                            vassert!(near(g.groundspeed, gs, 1e-6), "ground speed = hypot of the two components");
                            let mut t = ew.atan2(ns).to_degrees();
                            if t < 0.0 { t += 360.0; }
                            vassert!(near(g.track, t, 1e-6), "track = atan2(east-west, north-south) in degrees");
                        }
                    }
                }
                AirborneVelocitySubType::AirspeedSubsonic(v) => {
                    vassert!(st == 3, "subsonic airspeed layout only for subtype 3");
                    let (sh, hdg, t, asp) = (field(&a, 14, 14), field(&a, 15, 24), field(&a, 25, 25), field(&a, 26, 35));
                    if sh == 1 { vassert!(matches!(v.heading, Some(h) if near(h, hdg as f64 * 360.0 / 1024.0, 1e-9)), "heading = code x 360/1024"); }
                    else { vassert!(v.heading.is_none(), "heading unavailable without status"); }
                    if asp >= 1 { vassert!(v.airspeed == Some((asp - 1) as u16), "airspeed = code - 1 kt"); }
                    vassert!((t == 1) == matches!(v.airspeed_type, rs1090::decode::bds::bds09::AirspeedType::TAS), "airspeed type flag");
                }
                AirborneVelocitySubType::AirspeedSupersonic(v) => {
                    vassert!(st == 4, "supersonic airspeed layout only for subtype 4");
                    let (sh, hdg, asp) = (field(&a, 14, 14), field(&a, 15, 24), field(&a, 26, 35));
                    if sh == 1 { vassert!(matches!(v.heading, Some(h) if near(h as f64, hdg as f64 * 360.0 / 1024.0, 1e-3)), "heading = code x 360/1024"); }
                    if asp >= 1 { vassert!(v.airspeed == Some((4 * (asp - 1)) as u16), "airspeed = 4 x (code - 1) kt"); }
                }
                _ => { vassert!(st == 0 || st >= 5, "reserved layout only for reserved subtypes"); }
            }
            let (svr, vr) = (field(&a, 37, 37), field(&a, 38, 46));
            if vr >= 1 {
                let want = (vr as i32 - 1) * 64 * if svr == 1 { -1 } else { 1 };
                vcover!(vr == 511 && svr == 1);
                vassert!(m.vertical_rate == Some(want as i16), "vertical rate = +-(code - 1) x 64 ft/min");
            }
            let (sd, da) = (field(&a, 49, 49), field(&a, 50, 56));
            if da >= 2 {
                let want = (da as i32 - 1) * 25 * if sd == 1 { -1 } else { 1 };
                vassert!(m.geo_minus_baro == Some(want as i16), "GNSS-baro difference = +-(code - 1) x 25 ft");
            }
            vassert!((field(&a, 36, 36) == 1) == matches!(m.vrate_src, rs1090::decode::bds::bds09::VerticalRateSource::GeometricAltitude), "vertical rate source flag");
            vassert!(m.nac_v as u32 == field(&a, 11, 13), "NACv");
        }
        core::mem::forget(r);
    }
}

/// DO-260B table A-2.2: surface movement code -> ground speed (kt), lower bound of the step
fn movement_ref(c: u32) -> Option<f64> {
    match c {
        1 => Some(0.0),
        2..=8 => Some(0.125 * (c - 1) as f64),
        9..=12 => Some(1.0 + 0.25 * (c - 9) as f64),
        13..=38 => Some(2.0 + 0.5 * (c - 13) as f64),
        39..=93 => Some(15.0 + (c - 39) as f64),
        94..=108 => Some(70.0 + 2.0 * (c - 94) as f64),
        109..=123 => Some(100.0 + 5.0 * (c - 109) as f64),
        124 => Some(175.0),
        _ => None,
    }
}

harness! {
    #[kani::unwind(20)]
    #[kani::stub(alloc::fmt::format, crate::stubs::fmt_stub)]
    /// BDS 0,6: all 124 movement codes against the standard's piecewise table (within one
    /// quantisation step of the band), all 128 track codes
    fn bds06_fields(s) {
        let a: [u8; 7] = s.bytes();
        vassume!(bds06_ok_tc(tc_of(&a)));
        if let Ok(m) = d_bds06(&a) {
            let (mov, st, trk) = (field(&a, 6, 12), field(&a, 13, 13), field(&a, 14, 20));
            if let Some(want) = movement_ref(mov) {
                let step = if mov <= 8 { 0.125 } else if mov <= 12 { 0.25 } else if mov <= 38 { 0.5 } else if mov <= 93 { 1.0 } else if mov <= 108 { 2.0 } else { 5.0 };
                vcover!(mov == 124);
                vassert!(matches!(m.groundspeed, Some(g) if near(g, want, step)), "surface speed within one quantisation step of the standard's table");
            }
            if st == 1 { vassert!(matches!(m.track, Some(t) if near(t, trk as f64 * 360.0 / 128.0, 1e-9)), "surface track = code x 360/128"); }
            else { vassert!(m.track.is_none(), "track unavailable without status"); }
            vassert!(m.lat_cpr == field(&a, 23, 39) && m.lon_cpr == field(&a, 40, 56), "CPR counts");
        }
    }
}

harness! {
    #[kani::unwind(20)]
    #[kani::stub(alloc::fmt::format, crate::stubs::fmt_stub)]
    /// BDS 0,5: CPR counts, parity flag and altitude code positions (the altitude VALUE is C13)
    fn bds05_fields(s) {
        let a: [u8; 7] = s.bytes();
        vassume!(bds05_ok_tc(tc_of(&a)));
        if let Ok(m) = d_bds05(&a) {
            vcover!(m.lat_cpr == 131071);
            vassert!(m.lat_cpr == field(&a, 23, 39) && m.lon_cpr == field(&a, 40, 56), "CPR counts");
            vassert!((field(&a, 22, 22) == 1) == (m.parity == rs1090::decode::cpr::CPRFormat::Odd), "CPR format flag");
            let c12 = field(&a, 9, 20);
            // same code through an independent route: all other bits zeroed
            let mut b = [0u8; 7];
            b[0] = 11 << 3; b[1] = (c12 >> 4) as u8; b[2] = ((c12 & 0xf) << 4) as u8;
            vassert!(m.alt == d_bds05(&b).unwrap().alt, "altitude depends on the 12 altitude bits only");
        }
    }
}

harness! {
    #[kani::unwind(20)]
    #[kani::stub(alloc::fmt::format, crate::stubs::fmt_stub)]
    /// BDS 6,2: selected altitude (nearest 100 ft to (code-1) x 32 ft), QNH, selected heading
    fn bds62_fields(s) {
        let a: [u8; 7] = s.bytes();
        if let Ok(m) = d_bds62(&a) {
            let (alt, qnh, hs, hdg) = (field(&a, 10, 20), field(&a, 21, 29), field(&a, 30, 30), field(&a, 31, 39));
            if alt >= 2 {
                let std = (alt as i32 - 1) * 32;
                vcover!(alt == 2047);
                vassert!(matches!(m.selected_altitude, Some(v) if grid100_ok(v as i32, std, 32)), "selected altitude = (code - 1) x 32 ft, reported on the 100 ft grid");
            }
            if qnh >= 1 { vassert!(matches!(m.barometric_setting, Some(q) if near(q as f64, 800.0 + (qnh as f64 - 1.0) * 0.8, 0.01)), "QNH = 800 + (code - 1) x 0.8 hPa"); }
            if hs == 1 { vassert!(matches!(m.selected_heading, Some(h) if near(h as f64, hdg as f64 * 180.0 / 256.0, 0.01)), "selected heading = code x 180/256"); }
            vassert!(m.nac_p as u32 == field(&a, 40, 43) && m.sil as u32 == field(&a, 45, 46), "NACp / SIL");
        }
    }
}

/// Selected altitudes are set on a 100 ft grid and transmitted with a finer LSB; rs1090 reports the
/// grid value.  For a code that IS the encoding of a grid value V (|std - V| <= lsb/2) the report
/// must be exactly V; for any other code it must stay within one 100 ft step of the standard's value.
fn grid100_ok(got: i32, std: i32, lsb: i32) -> bool {
    let v = (std + 50) / 100 * 100;
    if (std - v).abs() <= lsb / 2 { got == v } else { got % 100 == 0 && (got - std).abs() < 100 }
}

fn signed(code: u32, sign: u32, bits: u32) -> i32 { if sign == 1 { code as i32 - (1 << bits) } else { code as i32 } }

harness! {
    #[kani::unwind(20)]
    #[kani::stub(alloc::fmt::format, crate::stubs::fmt_stub)]
    /// BDS 4,0: MCP / FMS selected altitude (code x 16 ft, reported on the 100 ft grid), QNH
    fn bds40_fields(s) {
        let a: [u8; 7] = s.bytes();
        if let Ok(m) = d_bds40(&a) {
            let (s1, mcp, s2, fms, s3, q) = (field(&a, 1, 1), field(&a, 2, 13), field(&a, 14, 14), field(&a, 15, 26), field(&a, 27, 27), field(&a, 28, 39));
            if s1 == 1 { vcover!(mcp == 2500); vassert!(matches!(m.selected_altitude_mcp, Some(v) if grid100_ok(v as i32, mcp as i32 * 16, 16)), "MCP altitude = code x 16 ft on the 100 ft grid"); }
            else { vassert!(m.selected_altitude_mcp.is_none(), "MCP altitude unavailable without status"); }
            if s2 == 1 { vassert!(matches!(m.selected_altitude_fms, Some(v) if grid100_ok(v as i32, fms as i32 * 16, 16)), "FMS altitude = code x 16 ft on the 100 ft grid"); }
            else { vassert!(m.selected_altitude_fms.is_none(), "FMS altitude unavailable without status"); }
            if s3 == 1 { vassert!(matches!(m.barometric_setting, Some(v) if near(v, 800.0 + q as f64 * 0.1, 1e-6)), "QNH = 800 + code x 0.1 hPa"); }
            else { vassert!(m.barometric_setting.is_none(), "QNH unavailable without status"); }
        }
    }
}

harness! {
    #[kani::unwind(20)]
    #[kani::stub(alloc::fmt::format, crate::stubs::fmt_stub)]
    /// BDS 5,0: roll, true track, ground speed, track rate, true airspeed of every accepted register
    fn bds50_fields(s) {
        let a: [u8; 7] = s.bytes();
        if let Ok(m) = d_bds50(&a) {
            if field(&a, 1, 1) == 1 { vassert!(matches!(m.roll_angle, Some(v) if near(v, signed(field(&a, 3, 11), field(&a, 2, 2), 9) as f64 * 45.0 / 256.0, 1e-9)), "roll = signed code x 45/256"); }
            else { vassert!(m.roll_angle.is_none(), "roll unavailable without status"); }
            if field(&a, 12, 12) == 1 {
                let t = signed(field(&a, 14, 23), field(&a, 13, 13), 10) as f64 * 90.0 / 512.0;
                let t = if t < 0.0 { t + 360.0 } else { t };
                vcover!(t > 300.0);
                vassert!(matches!(m.track_angle, Some(v) if near(v, t, 1e-9)), "true track = signed code x 90/512, in [0, 360)");
            } else { vassert!(m.track_angle.is_none(), "track unavailable without status"); }
            if field(&a, 24, 24) == 1 { vassert!(m.groundspeed == Some((field(&a, 25, 34) * 2) as u16), "ground speed = code x 2 kt"); }
            else { vassert!(m.groundspeed.is_none(), "ground speed unavailable without status"); }
            if field(&a, 35, 35) == 1 && field(&a, 37, 45) != 511 { vassert!(matches!(m.track_rate, Some(v) if near(v, signed(field(&a, 37, 45), field(&a, 36, 36), 9) as f64 * 8.0 / 256.0, 1e-9)), "track rate = signed code x 8/256"); }
            if field(&a, 46, 46) == 1 { vassert!(m.true_airspeed == Some((field(&a, 47, 56) * 2) as u16), "TAS = code x 2 kt"); }
            else { vassert!(m.true_airspeed.is_none(), "TAS unavailable without status"); }
        }
    }
}

harness! {
    #[kani::unwind(20)]
    #[kani::stub(alloc::fmt::format, crate::stubs::fmt_stub)]
    /// BDS 6,0: magnetic heading, IAS, Mach, barometric and inertial vertical rates of every accepted register
    fn bds60_fields(s) {
        let a: [u8; 7] = s.bytes();
        if let Ok(m) = d_bds60(&a) {
            if field(&a, 1, 1) == 1 {
                let t = signed(field(&a, 3, 12), field(&a, 2, 2), 10) as f64 * 90.0 / 512.0;
                let t = if t < 0.0 { t + 360.0 } else { t };
                vcover!(t > 300.0);
                vassert!(matches!(m.magnetic_heading, Some(v) if near(v, t, 1e-9)), "heading = signed code x 90/512, in [0, 360)");
            } else { vassert!(m.magnetic_heading.is_none(), "heading unavailable without status"); }
            if field(&a, 13, 13) == 1 { vassert!(m.indicated_airspeed == Some(field(&a, 14, 23) as u16), "IAS = code kt"); }
            else { vassert!(m.indicated_airspeed.is_none(), "IAS unavailable without status"); }
            if field(&a, 24, 24) == 1 { vassert!(matches!(m.mach_number, Some(v) if near(v, field(&a, 25, 34) as f64 * 2.048 / 512.0, 1e-9)), "Mach = code x 2.048/512"); }
            else { vassert!(m.mach_number.is_none(), "Mach unavailable without status"); }
            let vr = |st: u32, sg: u32, c: u32| -> Option<i32> {
                if st == 0 { None } else if c == 0 || c == 511 { Some(0) } else { Some(signed(c, sg, 9) * 32) }
            };
            vassert!(m.barometric_altitude_rate.map(|v| v as i32) == vr(field(&a, 35, 35), field(&a, 36, 36), field(&a, 37, 45)), "barometric rate = signed code x 32 ft/min");
            vassert!(m.inertial_vertical_velocity.map(|v| v as i32) == vr(field(&a, 46, 46), field(&a, 47, 47), field(&a, 48, 56)), "inertial rate = signed code x 32 ft/min");
        }
    }
}

harness! {
    #[kani::unwind(20)]
    #[kani::stub(alloc::fmt::format, crate::stubs::fmt_stub)]
    /// the 24-bit address field (AA of DF11/17/18) is the big-endian value of its three bytes
    fn icao_field(s) {
        let b: [u8; 3] = s.bytes();
        let r = rs1090::decode::ICAO::try_from(&b[..]);
        vcover!(r.is_ok());
        vassert!(matches!(r, Ok(i) if i.0 == (b[0] as u32) << 16 | (b[1] as u32) << 8 | b[2] as u32), "address = 24 bits, most significant first");
    }
}

// ---- DF20: "a payload is labelled as an airborne position only when its altitude equals the altitude
// of the surveillance header" — decided on the REAL DF20DataSelector reader (commb.rs), called directly
// with the header altitude as context.  The other twelve register hypotheses are contract stubs
// (selstubs.rs: fail / succeed with a sample value, nondeterministically): what is under test here
// is the selector's glue and the real BDS 0,5 reader.
with_selector_stubs! {
    /// EVERY 56-bit MB field x every 16-bit header altitude: bds05 is Some exactly when the type code is
    /// one the selector offers to BDS 0,5, the payload read as BDS 0,5 is accepted, carries an altitude,
    /// and that altitude equals the header altitude; the labelled position carries the payload's counts
    fn df20_gate(s) {
        let a: [u8; 7] = s.bytes();
        let ac = s.u16();
        let mut cur = deku::no_std_io::Cursor::new(&a[..]);
        let mut reader = Reader::new(&mut cur);
        let r = rs1090::decode::commb::DF20DataSelector::from_reader_with_ctx(&mut reader, rs1090::decode::AC13Field(ac));
        vcover!(matches!(&r, Ok(sel) if sel.bds05.is_some()));
        vcover!(matches!(&r, Ok(sel) if sel.bds05.is_none()));
        vassert!(r.is_ok(), "the selector itself never fails on 56 bits");
        if let Ok(sel) = &r {
            let tc = a[0] >> 3;
            let zero = a[0] == 0 && a[1] == 0 && a[2] == 0 && a[3] == 0 && a[4] == 0 && a[5] == 0 && a[6] == 0;
            let expect = if !zero && ((tc >= 9 && tc <= 18) || (tc >= 20 && tc <= 21)) {
                match d_bds05(&a) { Ok(p) => p.alt.is_some() && p.alt == Some(ac), Err(_) => false }
            } else { false };
            if let Some(p) = &sel.bds05 {
                vassert!(p.alt == Some(ac), "labelled as airborne position only when its altitude equals the header altitude");
                vassert!(p.lat_cpr == field(&a, 23, 39) && p.lon_cpr == field(&a, 40, 56), "the labelled position carries the payload's counts");
            }
            vassert!(sel.bds05.is_some() == expect, "BDS 0,5 label present iff accepted with an altitude equal to the header altitude");
        }
        core::mem::forget(r);
    }
}


registry!(df20_gate, callsign_bds08, callsign_bds20, bds09_fields, bds06_fields, bds05_fields, bds62_fields, bds40_fields, bds50_fields, bds60_fields, icao_field);

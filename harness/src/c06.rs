//! C06 — trajectory decoding (`rs1090::decode::cpr::decode_position`): the window / gate / attribution logic.
//!
//! PARTIAL CLAIM (DESIGN 7.6).  The four numeric kernels `airborne_position`, `airborne_position_with_reference`,
//! `surface_position_with_reference` and `dist_haversine` are decided on their own under C04 / C05; two reports through
//! the real `decode_position` WITH them exhaust 42 GB (DESIGN 3/C06).  Here they are replaced (Kani build only) by
//! CONTRACT STUBS that hand out an arbitrary answer (drawn by the harness per step and kind of call) and record the
//! arguments they were asked with — an arbitrary function is all `decode_position` may assume about them.  What is decided is
//! the logic of `decode_position` itself, for EVERY history within the bound: which earlier report is paired with which
//! (same aircraft, opposite parity, 0 <= dt < 10 s), which reference is used (that aircraft's last position, < 180 s
//! old; the receiver reference for surface reports), the 50 km plausibility gate, the 1 km surface continuity test,
//! the out-of-order guard, what is attached to the report and what is written to the receiver reference.
//!
//! Oracle: `model_step`, a reference model of that logic written from the property's mechanism list, run on the same
//! history against the same kernels.  The assertion is ONE-DIRECTIONAL in the sense of the property ("reports may be
//! left without a position but never given a wrong one"): a position the implementation attaches must be the one the
//! model attaches; when the implementation attaches nothing where the model would, the model follows it.
//!
//! Natively (replay) the same body runs with the REAL kernels; because the stub answers of a Kani counterexample are not
//! tied to the payload bits, the native body re-runs the counterexample's skeleton (kinds, parities, addresses,
//! timestamps, reference) over a battery of payload assignments synthesised by a CPR encoder (true positions that are
//! identical / 0.3 km / 5 km / 80 km / 400 km apart) and reports a violation only if the real code and the model
//! disagree on one of them.
use crate::src::Src;
use rs1090::decode::adsb::ME;
use rs1090::decode::bds::bds05::AirbornePosition;
use rs1090::decode::bds::bds06::SurfacePosition;
use rs1090::decode::cpr::{airborne_position, airborne_position_with_reference, surface_position_with_reference, CPRFormat, Position, UpdateIf};

/// Kani build: `decode_position` (with `AircraftState`, `dist_haversine`, `haversine`) sliced VERBATIM from cpr.rs on every
/// run (tools/gen.py), compiled with the name `BTreeMap` bound to `SmallMap` below.  std's B-tree is the one thing between
/// the harness and the logic that CBMC cannot carry: two `entry()` calls on a `BTreeMap<ICAO, AircraftState>` alone cost
/// 108 s of symbolic execution and more than 13 GB (nodes are arrays of eleven 250-byte `MaybeUninit` unions).
/// Native replay: the real `rs1090::decode::cpr::decode_position` with the real `BTreeMap`.
#[cfg(kani)]
pub mod slice {
    include!("gen/c06_slice.rs");
}
#[cfg(kani)]
use slice::{decode_position, AircraftState};
#[cfg(not(kani))]
use rs1090::decode::cpr::{decode_position, AircraftState};
#[cfg(not(kani))]
type Map = std::collections::BTreeMap<ICAO, AircraftState>;
#[cfg(kani)]
type Map = SmallMap<ICAO, AircraftState>;

/// Two-slot association list with the `entry(k).or_insert(v)` API `decode_position` uses (model of the map; part of the
/// trusted base of every C06 harness).  Histories involve at most two aircraft.
pub struct SmallMap<K, V> {
    keys: [Option<K>; 2],
    vals: [Option<V>; 2],
}
pub struct SmallEntry<'a, K, V> {
    m: &'a mut SmallMap<K, V>,
    i: usize,
    k: K,
}
impl<K: PartialEq + Copy, V> SmallMap<K, V> {
    pub fn new() -> Self {
        SmallMap { keys: [None, None], vals: [None, None] }
    }
    pub fn entry(&mut self, k: K) -> SmallEntry<'_, K, V> {
        let i = if self.keys[0] == Some(k) { 0 } else if self.keys[1] == Some(k) { 1 } else if self.keys[0].is_none() { 0 } else { 1 };
        assert!(self.keys[i].is_none() || self.keys[i] == Some(k), "SmallMap holds at most two keys");
        SmallEntry { m: self, i, k }
    }
}
impl<'a, K: PartialEq + Copy, V> SmallEntry<'a, K, V> {
    pub fn or_insert(self, v: V) -> &'a mut V {
        if self.m.vals[self.i].is_none() {
            self.m.keys[self.i] = Some(self.k);
            self.m.vals[self.i] = Some(v);
        }
        self.m.vals[self.i].as_mut().unwrap()
    }
}
use rs1090::decode::ICAO;

/// airborne position report (tc = 11, altitude 38000 ft) with the given parity and 17-bit counts, through the real reader
pub fn report(odd: bool, yz: u32, xz: u32) -> AirbornePosition {
    let f = if odd { 0x04u8 } else { 0x00 };
    let b = [11u8 << 3, 0xc3, 0x80 | f | ((yz >> 15) & 0x03) as u8, (yz >> 7) as u8, (((yz & 0x7f) << 1) | ((xz >> 16) & 1)) as u8, (xz >> 8) as u8, xz as u8];
    AirbornePosition::try_from(&b[..]).unwrap()
}
/// surface position report (tc = 7) with the given parity and counts, through the real reader
pub fn surface_report(odd: bool, yz: u32, xz: u32) -> SurfacePosition {
    let f = if odd { 0x04u8 } else { 0x00 };
    let b = [(7u8 << 3) | 0x1, 0x23, 0x80 | f | ((yz >> 15) & 0x03) as u8, (yz >> 7) as u8, (((yz & 0x7f) << 1) | ((xz >> 16) & 1)) as u8, (xz >> 8) as u8, xz as u8];
    SurfacePosition::try_from(&b[..]).unwrap()
}

// ---------------------------------------------------------------------------------------------- kernels
/// kinds of kernel call within one step: 0 = airborne_position (global), 1 = airborne_position_with_reference,
/// 2 / 3 = first / second surface_position_with_reference of the step, 4 = dist_haversine
pub const MAXSTEP: usize = 4;

#[cfg(kani)]
pub mod kstubs {
    //! Contract stubs: each kernel is an ARBITRARY function.  The answer of the (at most one, surface: two) call of each
    //! kind in step k is drawn by the harness beforehand (ANS[k][kind]); the stub hands it out and records the arguments
    //! it was called with, so that the harness can check WHICH report / reference the implementation consulted.
    use super::*;
    pub static mut STEP: usize = 0;
    pub static mut SURF_N: usize = 0;
    pub static mut ANS: [[(bool, f64, f64); 5]; MAXSTEP] = [[(false, 0.0, 0.0); 5]; MAXSTEP];
    pub static mut CALLED: [[u8; 5]; MAXSTEP] = [[0; 5]; MAXSTEP];
    pub static mut ARGS: [[[u64; 4]; 5]; MAXSTEP] = [[[0; 4]; 5]; MAXSTEP];

    pub fn key_air(m: &AirbornePosition) -> u64 {
        ((m.parity == CPRFormat::Odd) as u64) << 40 | (m.lat_cpr as u64) << 20 | m.lon_cpr as u64
    }
    pub fn key_surf(m: &SurfacePosition) -> u64 {
        ((m.parity == CPRFormat::Odd) as u64) << 40 | (m.lat_cpr as u64) << 20 | m.lon_cpr as u64
    }
    fn hand(kind: usize, a: [u64; 4]) -> (bool, f64, f64) {
        unsafe {
            let k = STEP;
            if CALLED[k][kind] < 255 { CALLED[k][kind] += 1; }
            ARGS[k][kind] = a;
            ANS[k][kind]
        }
    }
    fn pos(a: (bool, f64, f64)) -> Option<Position> {
        if a.0 { Some(Position { latitude: a.1, longitude: a.2 }) } else { None }
    }
    pub fn global(old: &AirbornePosition, new: &AirbornePosition) -> Option<Position> {
        pos(hand(0, [key_air(old), key_air(new), 0, 0]))
    }
    pub fn local_air(m: &AirbornePosition, lat: f64, lon: f64) -> Option<Position> {
        pos(hand(1, [key_air(m), lat.to_bits(), lon.to_bits(), 0]))
    }
    pub fn local_surf(m: &SurfacePosition, lat: f64, lon: f64) -> Option<Position> {
        let n = unsafe { let n = SURF_N; SURF_N = 1; n };
        pos(hand(2 + n, [key_surf(m), lat.to_bits(), lon.to_bits(), 0]))
    }
    pub fn hav(p1: &Position, p2: &Position) -> f64 {
        hand(4, [p1.latitude.to_bits(), p1.longitude.to_bits(), p2.latitude.to_bits(), p2.longitude.to_bits()]).1
    }
}

/// great-circle distance exactly as rs1090::decode::cpr::haversine computes it (native model side only)
#[cfg(not(kani))]
fn hav_native(p1: &Position, p2: &Position) -> f64 {
    let (lat1, lon1, lat2, lon2) = (p1.latitude, p1.longitude, p2.latitude, p2.longitude);
    let d_lat = (lat2 - lat1).to_radians();
    let d_lon = (lon2 - lon1).to_radians();
    let a = (d_lat / 2.0).sin() * (d_lat / 2.0).sin() + lat1.to_radians().cos() * lat2.to_radians().cos() * (d_lon / 2.0).sin() * (d_lon / 2.0).sin();
    let c = 2.0 * a.sqrt().atan2((1.0 - a).sqrt());
    6371.0 * c
}

/// the kernels as the MODEL consults them: under Kani the answers drawn for this step (and a note of the arguments
/// the model used, to be compared with what the implementation passed); natively the real public kernels
pub struct Kern {
    step: usize,
    surf_n: usize,
    used: [Option<[u64; 4]>; 5],
    /// kind whose answer became the model's position
    from: Option<usize>,
}
impl Kern {
    #[cfg(kani)]
    fn ans(&self, kind: usize) -> Option<Position> {
        let a = unsafe { kstubs::ANS[self.step][kind] };
        if a.0 { Some(Position { latitude: a.1, longitude: a.2 }) } else { None }
    }
    fn global(&mut self, old: &AirbornePosition, new: &AirbornePosition) -> Option<Position> {
        #[cfg(kani)]
        { self.used[0] = Some([kstubs::key_air(old), kstubs::key_air(new), 0, 0]); self.ans(0) }
        #[cfg(not(kani))]
        { airborne_position(old, new) }
    }
    fn local_air(&mut self, m: &AirbornePosition, lat: f64, lon: f64) -> Option<Position> {
        #[cfg(kani)]
        { self.used[1] = Some([kstubs::key_air(m), lat.to_bits(), lon.to_bits(), 0]); self.ans(1) }
        #[cfg(not(kani))]
        { airborne_position_with_reference(m, lat, lon) }
    }
    fn local_surf(&mut self, m: &SurfacePosition, lat: f64, lon: f64) -> (usize, Option<Position>) {
        let kind = 2 + self.surf_n;
        self.surf_n = 1;
        #[cfg(kani)]
        { self.used[kind] = Some([kstubs::key_surf(m), lat.to_bits(), lon.to_bits(), 0]); (kind, self.ans(kind)) }
        #[cfg(not(kani))]
        { (kind, surface_position_with_reference(m, lat, lon)) }
    }
    fn hav(&mut self, p1: &Position, p2: &Position) -> f64 {
        #[cfg(kani)]
        { self.used[4] = Some([p1.latitude.to_bits(), p1.longitude.to_bits(), p2.latitude.to_bits(), p2.longitude.to_bits()]); unsafe { kstubs::ANS[self.step][4].1 } }
        #[cfg(not(kani))]
        { hav_native(p1, p2) }
    }
}

// ---------------------------------------------------------------------------------------------- reference model
#[derive(Clone, Copy)]
pub struct MState {
    used: bool,
    icao: u32,
    ts: f64,
    pos: Option<Position>,
    odd_ts: f64,
    odd: Option<AirbornePosition>,
    even_ts: f64,
    even: Option<AirbornePosition>,
}
const MS0: MState = MState { used: false, icao: 0, ts: 0.0, pos: None, odd_ts: 0.0, odd: None, even_ts: 0.0, even: None };

#[derive(Clone, Copy)]
pub enum Rep {
    Air(AirbornePosition),
    Surf(SurfacePosition),
}

pub struct Model {
    st: [MState; 2],
    reference: Option<Position>,
}

impl Model {
    fn slot(&mut self, icao: u32, ts: f64) -> usize {
        let i = if self.st[0].used && self.st[0].icao == icao { 0 } else if self.st[1].used && self.st[1].icao == icao { 1 } else if !self.st[0].used { 0 } else { 1 };
        if !self.st[i].used {
            self.st[i] = MState { used: true, icao, ts, pos: None, odd_ts: ts, odd: None, even_ts: ts, even: None };
        }
        i
    }
    /// what the model attaches to this report — from the property's mechanism list: out-of-order guard, 10 s pairing
    /// window, 180 s reference window, 50 km gate, 1 km surface continuity.  -> (dropped as out of order, position)
    fn expect(&mut self, kn: &mut Kern, rep: &Rep, ts: f64, icao: u32) -> (bool, Option<Position>) {
        let i = self.slot(icao, ts);
        let st = self.st[i];
        match rep {
            Rep::Air(m) => {
                let odd = m.parity == CPRFormat::Odd;
                let (o_ts, o_msg) = if odd { (st.even_ts, st.even) } else { (st.odd_ts, st.odd) };
                if ts - o_ts < 0.0 {
                    return (true, None);
                }
                let mut pos = None;
                if ts - o_ts < 10.0 {
                    if let Some(old) = o_msg {
                        pos = kn.global(&old, m);
                        if pos.is_some() { kn.from = Some(0); }
                    }
                }
                if pos.is_none() && ts - st.ts < 180.0 {
                    if let Some(p) = st.pos {
                        pos = kn.local_air(m, p.latitude, p.longitude);
                        if pos.is_some() { kn.from = Some(1); }
                    }
                }
                if let (Some(np), Some(lp)) = (pos, st.pos) {
                    if kn.hav(&np, &lp) > 50.0 {
                        pos = None;
                    }
                }
                (false, pos)
            }
            Rep::Surf(m) => {
                let mut pos = None;
                if let Some(lp) = st.pos {
                    let (kind, r) = kn.local_surf(m, lp.latitude, lp.longitude);
                    if let Some(sp) = r {
                        if kn.hav(&lp, &sp) < 1.0 {
                            pos = Some(sp);
                            kn.from = Some(kind);
                        }
                    }
                }
                if pos.is_none() {
                    if let Some(r) = self.reference {
                        let (kind, r) = kn.local_surf(m, r.latitude, r.longitude);
                        pos = r;
                        if pos.is_some() { kn.from = Some(kind); }
                    }
                }
                (false, pos)
            }
        }
    }
    fn commit(&mut self, rep: &Rep, ts: f64, icao: u32, dropped: bool, attached: Option<Position>, upd: bool) {
        let i = self.slot(icao, ts);
        match rep {
            Rep::Air(m) => {
                if dropped {
                    return;
                }
                match attached {
                    Some(p) => {
                        self.st[i].pos = Some(p);
                        self.st[i].ts = ts;
                        if upd {
                            self.reference = Some(p);
                        }
                    }
                    None => self.st[i].pos = None,
                }
                let st = &mut self.st[i];
                if m.parity == CPRFormat::Odd {
                    st.odd = Some(*m);
                    st.odd_ts = ts;
                } else {
                    st.even = Some(*m);
                    st.even_ts = ts;
                }
            }
            Rep::Surf(_) => {
                if let Some(p) = attached {
                    self.st[i].pos = Some(p);
                    self.st[i].ts = ts;
                }
            }
        }
    }
}

/// fieldwise (array `==` is a memcmp loop)
fn eq4(a: [u64; 4], b: [u64; 4]) -> bool { a[0] == b[0] && a[1] == b[1] && a[2] == b[2] && a[3] == b[3] }

fn same(a: Option<Position>, b: Option<Position>) -> bool {
    match (a, b) {
        (None, None) => true,
        (Some(x), Some(y)) => x.latitude.to_bits() == y.latitude.to_bits() && x.longitude.to_bits() == y.longitude.to_bits(),
        _ => false,
    }
}

#[derive(Clone, Copy)]
pub struct Ev {
    pub surface: bool,
    pub odd: bool,
    pub who: bool,
    pub ts: f64,
    pub yz: u32,
    pub xz: u32,
}

/// one history through the real decode_position and the model; panics (PROP: ...) on a disagreement
pub fn run_history(evs: &[Ev], reference: Option<Position>, upd: bool, icaos: [u32; 2]) {
    let mut aircraft: Map = Map::new();
    let mut r_real = reference;
    let mut model = Model { st: [MS0; 2], reference };
    let update: UpdateIf = if upd { Some(Box::new(|_m: &AirbornePosition| true)) } else { None };
    // templates decoded ONCE from concrete bytes by the real reader (tc is a private field); the public parity / count
    // fields are then overwritten per report
    let t_air = report(false, 0, 0);
    let t_surf = surface_report(false, 0, 0);
    let mut k = 0;
    while k < evs.len() {
        let e = evs[k];
        let icao = icaos[e.who as usize];
        let par = if e.odd { CPRFormat::Odd } else { CPRFormat::Even };
        let rep = if e.surface {
            let mut m = t_surf; m.parity = par; m.lat_cpr = e.yz; m.lon_cpr = e.xz; Rep::Surf(m)
        } else {
            let mut m = t_air; m.parity = par; m.lat_cpr = e.yz; m.lon_cpr = e.xz; Rep::Air(m)
        };
        let mut kn = Kern { step: k, surf_n: 0, used: [None; 5], from: None };
        let (dropped, want) = model.expect(&mut kn, &rep, e.ts, icao);
        let mut me = match rep {
            Rep::Air(m) => ME::BDS05(m),
            Rep::Surf(m) => ME::BDS06(m),
        };
        let ref_before = r_real;
        #[cfg(kani)]
        unsafe { kstubs::STEP = k; kstubs::SURF_N = 0; }
        decode_position(&mut me, e.ts, &ICAO(icao), &mut aircraft, &mut r_real, &update);
        let (la, lo) = match &me {
            ME::BDS05(m) => (m.latitude, m.longitude),
            ME::BDS06(m) => (m.latitude, m.longitude),
            _ => (None, None),
        };
        vassert!(la.is_some() == lo.is_some(), "latitude and longitude are attached together");
        let got = match (la, lo) { (Some(a), Some(b)) => Some(Position { latitude: a, longitude: b }), _ => None };
        crate::vcover!(got.is_some());
        if got.is_some() {
            vassert!(same(got, want), "a position attached to a report is the one the window/gate rules allow (own aircraft, opposite parity within 10 s, own last position younger than 180 s, 50 km gate, 1 km surface continuity, receiver reference for surface reports)");
            #[cfg(kani)]
            unsafe {
                // provenance: the kernel call that produced the position, and the distance consulted for the gate, were made
                // on the reports / reference the rules name (the stubs hand out the same answer whatever they are asked)
                if let Some(kind) = kn.from {
                    if let Some(a) = kn.used[kind] {
                        vassert!(kstubs::CALLED[k][kind] >= 1 && eq4(kstubs::ARGS[k][kind], a), "the position was computed from the reports / reference the rules name (same aircraft, stored opposite-parity report, own last position or receiver reference)");
                    }
                }
                if let Some(a) = kn.used[4] {
                    let b = kstubs::ARGS[k][4];
                    let sw = [a[2], a[3], a[0], a[1]];
                    vassert!(kstubs::CALLED[k][4] >= 1 && (eq4(b, a) || eq4(b, sw)), "the plausibility distance was taken between the new position and the aircraft's own last position");
                }
            }
        }
        model.commit(&rep, e.ts, icao, dropped, got, upd);
        // receiver reference: only ever replaced by a position attached to an airborne report, and only when asked to
        let ref_want = if upd && !e.surface && got.is_some() { got } else { ref_before };
        vassert!(same(r_real, ref_want), "the receiver reference changes only to a position just attached to an airborne report, when the update callback says so");
        k += 1;
    }
    core::mem::forget(aircraft);
    core::mem::forget(update);
}

fn draw_ev<S: Src>(s: &mut S, surface: bool, who: bool) -> Ev {
    let odd = s.bool();
    let ts = s.f64();
    let yz = s.u32();
    let xz = s.u32();
    vassume!(ts.is_finite() && ts >= 0.0 && ts < 4.0e9 && yz < 131072 && xz < 131072);
    Ev { surface, odd, who, ts, yz, xz }
}
fn draw_ref<S: Src>(s: &mut S) -> Option<Position> {
    let has = s.bool();
    let la = s.f64();
    let lo = s.f64();
    vassume!(la.is_finite() && lo.is_finite());
    if has { Some(Position { latitude: la, longitude: lo }) } else { None }
}
/// answers of the kernel calls of every step (Kani: written into the stubs' table; natively: drawn and ignored, the real
/// kernels answer)
fn draw_answers<S: Src>(s: &mut S, n: usize) {
    let mut k = 0;
    while k < n {
        let mut kind = 0;
        while kind < 5 {
            let some = s.bool();
            let a = s.f64();
            let b = s.f64();
            vassume!(a.is_finite() && b.is_finite());
            if kind == 4 { vassume!(a >= 0.0); }
            #[cfg(kani)]
            unsafe { kstubs::ANS[k][kind] = (some, a, b); kstubs::CALLED[k][kind] = 0; }
            let _ = (some, a, b);
            kind += 1;
        }
        k += 1;
    }
}

// ---------------------------------------------------------------------------------------------- native payload battery
#[cfg(not(kani))]
mod battery {
    use super::*;
    /// CPR-encode a position (airborne: span 360, surface: span 90) — DO-260B A.1.7.3
    pub fn encode(lat: f64, lon: f64, odd: bool, surface: bool) -> (u32, u32) {
        let nz = 15.0;
        let i = if odd { 1.0 } else { 0.0 };
        let dlat = 360.0 / (4.0 * nz - i);
        let nb = if surface { 19 } else { 17 };
        let p = (1u64 << nb) as f64;
        let m = |x: f64, y: f64| x - y * (x / y).floor();
        let yz = (p * m(lat, dlat) / dlat + 0.5).floor();
        let rlat = dlat * (yz / p + (lat / dlat).floor());
        // closed formula of DO-260B A.1.7.2.d
        let nl = if rlat.abs() >= 87.0 { 1.0 } else if rlat == 0.0 { 59.0 } else {
            let a = 1.0 - libm::cos(core::f64::consts::PI / (2.0 * nz));
            let b = libm::cos(core::f64::consts::PI / 180.0 * rlat.abs());
            (2.0 * core::f64::consts::PI / libm::acos(1.0 - a / (b * b))).floor()
        };
        let dlon = if nl - i > 0.0 { 360.0 / (nl - i) } else { 360.0 };
        let xz = (p * m(lon, dlon) / dlon + 0.5).floor();
        (((yz as u64) & 0x1ffff) as u32, ((xz as u64) & 0x1ffff) as u32)
    }
    /// displacement classes (km north-east of the previous true position)
    pub const STEPS: [f64; 5] = [0.0, 0.3, 5.0, 80.0, 400.0];
}

macro_rules! history {
    ($name:ident, $unwind:expr, [$(($surf:expr, $who:expr)),*]) => {
        harness! {
            #[kani::unwind($unwind)]
            #[kani::stub(alloc::fmt::format, crate::stubs::fmt_stub)]
            #[kani::stub(rs1090::decode::cpr::airborne_position, crate::c06::kstubs::global)]
            #[kani::stub(rs1090::decode::cpr::airborne_position_with_reference, crate::c06::kstubs::local_air)]
            #[kani::stub(rs1090::decode::cpr::surface_position_with_reference, crate::c06::kstubs::local_surf)]
            #[kani::stub(crate::c06::slice::dist_haversine, crate::c06::kstubs::hav)]
            fn $name(s) {
                // which aircraft sends which report is CONCRETE per harness (a symbolic key makes every B-tree node access a
                // symbolic-offset access into a 2.4 kB node: 31 GB in propositional reduction, measured); all other inputs symbolic
                let mut evs = [$(draw_ev(s, $surf, $who)),*];
                let reference = draw_ref(s);
                let upd = s.bool();
                draw_answers(s, evs.len());
                let icaos = [0x3c6614u32, 0x484175u32];
                run_history(&evs, reference, upd, icaos);
                #[cfg(not(kani))]
                {
                    // the stub answers of a Kani counterexample are not tied to the payload bits: re-run the same skeleton
                    // over synthesised payloads (true positions in every combination of displacement classes)
                    let n = evs.len();
                    let mut combo = 0usize;
                    let total = battery::STEPS.len().pow(n as u32);
                    while combo < total {
                        for base in [(48.1f64, 2.3f64), (-33.9, 151.2), (0.02, -179.98), (86.9, 10.0)] {
                            let (mut lat, mut lon) = base;
                            let mut c = combo;
                            for k in 0..n {
                                let km = battery::STEPS[c % battery::STEPS.len()];
                                c /= battery::STEPS.len();
                                lat += km / 111.2 * 0.7;
                                lon += km / (111.2 * libm::cos(lat.to_radians()).max(0.05)) * 0.7;
                                let (yz, xz) = battery::encode(lat.min(89.9), if lon >= 180.0 { lon - 360.0 } else { lon }, evs[k].odd, evs[k].surface);
                                evs[k].yz = yz;
                                evs[k].xz = xz;
                            }
                            let r = reference.map(|_| Position { latitude: base.0, longitude: base.1 });
                            run_history(&evs, r, upd, icaos);
                        }
                        combo += 1;
                    }
                }
            }
        }
    };
}

const A: bool = false;
const B: bool = true;
history!(air2_aa, 8, [(false, A), (false, A)]);
history!(air3_aaa, 8, [(false, A), (false, A), (false, A)]);
history!(air3_aba, 8, [(false, A), (false, B), (false, A)]);
history!(air3_aab, 8, [(false, A), (false, A), (false, B)]);
history!(air3_abb, 8, [(false, A), (false, B), (false, B)]);
history!(air4_aaaa, 8, [(false, A), (false, A), (false, A), (false, A)]);
history!(air4_abab, 8, [(false, A), (false, B), (false, A), (false, B)]);
history!(air2_surf_aaa, 8, [(false, A), (false, A), (true, A)]);
history!(air2_surf_aab, 8, [(false, A), (false, A), (true, B)]);
history!(surf2_aa, 8, [(true, A), (true, A)]);
history!(air_surf_air_aaa, 8, [(false, A), (true, A), (false, A)]);
history!(surf_air_surf_aaa, 8, [(true, A), (false, A), (true, A)]);
// deeper shapes (thorough tier)
history!(air4_aabb, 8, [(false, A), (false, A), (false, B), (false, B)]);
history!(air4_abba, 8, [(false, A), (false, B), (false, B), (false, A)]);
history!(air3_surf_aaaa, 8, [(false, A), (false, A), (false, A), (true, A)]);
history!(air2_surf_air_aaaa, 8, [(false, A), (false, A), (true, A), (false, A)]);
history!(air_surf2_aaa, 8, [(false, A), (true, A), (true, A)]);
history!(surf_air2_aaa, 8, [(true, A), (false, A), (false, A)]);
history!(air_surf_air_aba, 8, [(false, A), (true, B), (false, A)]);

registry!(air4_aabb, air4_abba, air3_surf_aaaa, air2_surf_air_aaaa, air_surf2_aaa, surf_air2_aaa, air_surf_air_aba, air2_aa, air3_aaa, air3_aba, air3_aab, air3_abb, air4_aaaa, air4_abab, air2_surf_aaa, air2_surf_aab, surf2_aa, air_surf_air_aaa, surf_air_surf_aaa);


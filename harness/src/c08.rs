//! C08 — decoded quantities stay in their physical range, for every ACCEPTED payload
//! (same entry points as C01(a); extra assertions on the accepted value).
use crate::pay::*;
use crate::src::Src;
use rs1090::decode::bds::bds09::AirborneVelocitySubType;
use rs1090::prelude::*;

fn angle_ok(x: f64) -> bool { x >= 0.0 && x < 360.0 }
fn angle32_ok(x: f32) -> bool { x >= 0.0 && x < 360.0 }

/// image of the Annex 10 6-bit alphabet as rs1090 renders it (space is dropped, undefined codes are '#')
fn char_ok(c: u8) -> bool {
    c == b'#' || (c >= b'A' && c <= b'Z') || (c >= b'0' && c <= b'9')
}
fn str_ok(s: &str, maxlen: usize) -> bool {
    let b = s.as_bytes();
    if b.len() > maxlen || maxlen > 8 { return false; }
    // fixed trip count (the length is symbolic)
    let mut ok = true;
    let mut i = 0;
    while i < 8 {
        if i < b.len() && !char_ok(b[i]) { ok = false; }
        i += 1;
    }
    ok
}

macro_rules! range {
    ($name:ident, $dec:ident, $pre:expr, |$m:ident| $body:block) => {
        harness! {
            #[kani::unwind(17)]
            #[kani::stub(alloc::fmt::format, crate::stubs::fmt_stub)]
            #[kani::stub(libm::atan2, crate::stubs::k::atan2_stub)]
            #[kani::stub(libm::hypot, crate::stubs::k::hypot_stub)]
            fn $name(s) {
                let a: [u8; 7] = s.bytes();
                let pre: fn(&[u8; 7]) -> bool = $pre;
                vassume!(pre(&a));
                let r = $dec(&a);
                vcover!(r.is_ok());
                if let Ok($m) = &r $body
                core::mem::forget(r);
            }
        }
    };
}

range!(range_bds05, d_bds05, |a| bds05_ok_tc(tc_of(a)), |m| {
    vassert!(m.lat_cpr < (1 << 17) && m.lon_cpr < (1 << 17), "CPR counts below 2^17");
    vassert!(m.nuc_p <= 9, "NUCp in 0..=9");
    if let Some(alt) = m.alt { vassert!(alt <= 65_500, "altitude within the encodable span"); }
    vassert!(m.latitude.is_none() && m.longitude.is_none(), "no position before CPR decoding");
});

range!(range_bds06, d_bds06, |a| bds06_ok_tc(tc_of(a)), |m| {
    vassert!(m.lat_cpr < (1 << 17) && m.lon_cpr < (1 << 17), "CPR counts below 2^17");
    vassert!(m.nuc_p <= 9, "NUCp in 0..=9");
    if let Some(gs) = m.groundspeed { vassert!(gs.is_finite() && gs >= 0.0 && gs <= 175.0, "surface speed in [0, 175] kt"); }
    if let Some(t) = m.track { vassert!(angle_ok(t), "surface track in [0, 360)"); }
});

range!(range_bds08, d_bds08, |a| bds08_ok_tc(tc_of(a)), |m| {
    vassert!(str_ok(&m.callsign, 8), "call sign drawn from the 6-bit character set, at most 8 characters");
});

range!(range_bds09, d_bds09, |_| true, |m| {
    match &m.velocity {
        AirborneVelocitySubType::GroundSpeedDecoding(g) => {
            vcover!(g.track > 359.0);
            vassert!(g.track.is_finite() && angle_ok(g.track), "track in [0, 360)");
            vassert!(g.groundspeed.is_finite() && g.groundspeed >= 0.0, "ground speed non-negative and finite");
            vassert!(g.ew_vel.is_finite() && g.ns_vel.is_finite() && g.ew_vel.abs() <= 1022.0 && g.ns_vel.abs() <= 1022.0, "velocity components finite, within +-1022 kt");
        }
        AirborneVelocitySubType::AirspeedSubsonic(v) => {
            if let Some(h) = v.heading { vassert!(h.is_finite() && angle_ok(h), "heading in [0, 360)"); }
            if let Some(sp) = v.airspeed { vassert!(sp <= 1022, "airspeed within the encodable span"); }
        }
        AirborneVelocitySubType::AirspeedSupersonic(v) => {
            if let Some(h) = v.heading { vassert!(h.is_finite() && angle32_ok(h), "heading in [0, 360)"); }
            if let Some(sp) = v.airspeed { vassert!(sp <= 4088 && sp % 4 == 0, "supersonic airspeed on the 4 kt grid"); }
        }
        _ => {}
    }
    if let Some(v) = m.vertical_rate {
        vassert!(v % 64 == 0 && v >= -32_640 && v <= 32_640, "vertical rate multiple of 64 ft/min within +-32640");
    }
    if let Some(d) = m.geo_minus_baro {
        vassert!(d % 25 == 0 && d >= -3150 && d <= 3150, "GNSS-baro difference multiple of 25 ft within +-3150");
    }
});

range!(range_bds61, d_bds61, |_| true, |m| {
    let q = m.squawk.0;
    vassert!(q & 0x8888 == 0, "squawk made of four octal digits");
});

range!(range_bds62, d_bds62, |_| true, |m| {
    if let Some(a) = m.selected_altitude { vassert!(a % 100 == 0 && a <= 65_500, "selected altitude on the 100 ft grid within span"); }
    if let Some(q) = m.barometric_setting { vassert!(q.is_finite() && q >= 800.0 && q <= 1209.0, "QNH in [800, 1209] hPa"); }
    if let Some(h) = m.selected_heading { vassert!(h.is_finite() && angle32_ok(h), "selected heading in [0, 360)"); }
});

range!(range_bds20, d_bds20, |_| true, |m| {
    vassert!(str_ok(&m.callsign, 8), "call sign drawn from the 6-bit character set");
});

range!(range_bds21, d_bds21, |_| true, |m| {
    if let Some(r) = &m.aircraft_registration { vassert!(str_ok(r, 7), "registration drawn from the 6-bit character set"); }
    if let Some(r) = &m.airline_registration { vassert!(str_ok(r, 2), "airline drawn from the 6-bit character set"); }
});

range!(range_bds40, d_bds40, |_| true, |m| {
    if let Some(a) = m.selected_altitude_mcp { vassert!(a % 100 == 0 && a <= 45_000, "MCP altitude on the 100 ft grid, <= 45000"); }
    if let Some(a) = m.selected_altitude_fms { vassert!(a % 100 == 0 && a <= 45_000, "FMS altitude on the 100 ft grid, <= 45000"); }
    if let Some(q) = m.barometric_setting { vassert!(q.is_finite() && q >= 800.0 && q <= 1209.5, "QNH in [800, 1209.5] hPa"); }
});

range!(range_bds44, d_bds44, |_| true, |m| {
    if let Some(w) = m.wind_speed { vassert!(w <= 250, "wind speed <= 250 kt"); }
    if let Some(d) = m.wind_direction { vassert!(d.is_finite() && angle_ok(d), "wind direction in [0, 360)"); }
    vassert!(m.temperature.is_finite() && m.temperature >= -80.0 && m.temperature <= 60.0, "temperature in [-80, 60] C");
    if let Some(h) = m.humidity { vassert!(h.is_finite() && h >= 0.0 && h <= 100.0, "humidity in [0, 100]"); }
});

range!(range_bds45, d_bds45, |_| true, |m| {
    if let Some(t) = m.static_temperature { vassert!(t.is_finite() && t >= -80.0 && t <= 60.0, "static temperature in [-80, 60] C"); }
});

range!(range_bds50, d_bds50, |_| true, |m| {
    if let Some(r) = m.roll_angle { vassert!(r.is_finite() && r >= -90.0 && r <= 90.0, "roll within +-90 degrees"); }
    if let Some(t) = m.track_angle { vcover!(t > 359.0); vassert!(t.is_finite() && angle_ok(t), "track in [0, 360)"); }
    if let Some(g) = m.groundspeed { vassert!(g <= 2046, "ground speed within the encodable span"); }
    if let Some(r) = m.track_rate { vassert!(r.is_finite() && r >= -16.0 && r <= 16.0, "track rate within +-16 deg/s"); }
    if let Some(t) = m.true_airspeed { vassert!(t <= 2046, "TAS within the encodable span"); }
});

range!(range_bds60, d_bds60, |_| true, |m| {
    if let Some(h) = m.magnetic_heading { vcover!(h > 359.0); vassert!(h.is_finite() && angle_ok(h), "heading in [0, 360)"); }
    if let Some(i) = m.indicated_airspeed { vassert!(i <= 1023, "IAS within the encodable span"); }
    if let Some(x) = m.mach_number { vassert!(x.is_finite() && x > 0.0 && x <= 1.0, "Mach in (0, 1]"); }
    if let Some(v) = m.barometric_altitude_rate { vassert!(v % 32 == 0 && v >= -16_384 && v <= 16_352, "baro rate multiple of 32 ft/min within span"); }
    if let Some(v) = m.inertial_vertical_velocity { vassert!(v % 32 == 0 && v >= -16_384 && v <= 16_352, "inertial rate multiple of 32 ft/min within span"); }
});

registry!(range_bds05, range_bds06, range_bds08, range_bds09, range_bds61, range_bds62, range_bds20, range_bds21,
          range_bds40, range_bds44, range_bds45, range_bds50, range_bds60);

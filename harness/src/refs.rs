//! Reference implementations written from the standards (not from /repo), shared by
//! several properties' oracles.

/// Mode S generator polynomial, 25 bits: x^24 + x^23 + ... (Annex 10 vol. IV 3.1.2.3.3.1.2)
pub const GENERATOR: u32 = 0x1FF_F409;

/// One bit-serial step of the division of (message * x^24) by the generator.
#[inline(always)]
pub fn crc_bit(rem: u32, inbit: u32) -> u32 {
    let top = (rem >> 23) & 1;
    let mut r = (rem << 1) & 0xff_ffff;
    if (top ^ inbit) == 1 {
        r ^= GENERATOR & 0xff_ffff;
    }
    r
}

#[inline(always)]
pub fn crc_byte(mut rem: u32, byte: u8) -> u32 {
    let mut i = 0;
    while i < 8 {
        rem = crc_bit(rem, ((byte >> (7 - i)) & 1) as u32);
        i += 1;
    }
    rem
}

/// Remainder of the first `n - 3` bytes (times x^24) modulo the generator, XORed with the
/// last three bytes: the Mode S syndrome of an `n`-byte frame.
pub fn syndrome(f: &[u8], n: usize) -> u32 {
    let mut rem = 0u32;
    let mut i = 0;
    while i + 3 < n {
        rem = crc_byte(rem, f[i]);
        i += 1;
    }
    rem ^ ((f[n - 3] as u32) << 16 | (f[n - 2] as u32) << 8 | f[n - 1] as u32)
}

/// Gillham (Annex 10 vol. IV 3.1.1.7.12.2.3 / appendix): Gray-coded 500 ft (D2 D4 A1 A2 A4 B1 B2 B4)
/// and 100 ft (C1 C2 C4) groups -> signed number N of 100-ft steps, altitude = 100*N ft
/// (N >= -12, i.e. -1200 ft is the first code); None if the pulse combination is illegal.
/// Input: the individual pulses as booleans.
#[derive(Clone, Copy)]
pub struct Pulses {
    pub a1: bool, pub a2: bool, pub a4: bool,
    pub b1: bool, pub b2: bool, pub b4: bool,
    pub c1: bool, pub c2: bool, pub c4: bool,
    pub d1: bool, pub d2: bool, pub d4: bool,
}

#[inline(always)]
fn gray_to_bin(mut g: u32, bits: u32) -> u32 {
    // standard reflected-binary Gray decoding: b = g ^ (g>>1) ^ (g>>2) ...
    let mut b = g;
    let mut i = 1;
    while i < bits {
        g >>= 1;
        b ^= g;
        i += 1;
    }
    b
}

pub fn gillham_ref(p: Pulses) -> Option<i32> {
    if p.d1 {
        return None;
    }
    // 500-ft increments: Gray code, MSB first D2 D4 A1 A2 A4 B1 B2 B4
    let g500 = (p.d2 as u32) << 7 | (p.d4 as u32) << 6 | (p.a1 as u32) << 5 | (p.a2 as u32) << 4
        | (p.a4 as u32) << 3 | (p.b1 as u32) << 2 | (p.b2 as u32) << 1 | (p.b4 as u32);
    let n500 = gray_to_bin(g500, 8);
    // 100-ft increments: C1 C2 C4 Gray code with the 5-cycle 001,011,010,110,100
    let g100 = (p.c1 as u32) << 2 | (p.c2 as u32) << 1 | (p.c4 as u32);
    let mut n100 = match g100 {
        0b001 => 1,
        0b011 => 2,
        0b010 => 3,
        0b110 => 4,
        0b100 => 5,
        _ => return None,
    };
    // reflection: when the 500-ft count is odd the 100-ft sub-sequence runs backwards
    if n500 & 1 == 1 {
        n100 = 6 - n100;
    }
    // -1200 ft is the first code of the sequence (n500 = 0, n100 = 1)
    Some((n500 * 5 + n100) as i32 - 13)
}

//! C01 — Mode S decoding is total. (a) per payload type, all 56 bits symbolic;
//! (b) whole frames through Message::try_from with the discriminating bytes concrete;
//! (c) length discipline; (d) determinism; (e) rendering.
use crate::pay::*;
use crate::src::Src;
use core::fmt::Write as _;
use rs1090::prelude::*;

// ---------------------------------------------------------------- (a) payload totality
macro_rules! total {
    ($name:ident, $dec:ident, $pre:expr) => { total!($name, $dec, $pre, |r| r.is_ok()); };
    ($name:ident, $dec:ident, $pre:expr, |$r:ident| $cov:expr) => {
        harness! {
            #[kani::unwind(17)]
            #[kani::stub(alloc::fmt::format, crate::stubs::fmt_stub)]
            #[kani::stub(libm::atan2, crate::stubs::k::atan2_stub)]
            #[kani::stub(libm::hypot, crate::stubs::k::hypot_stub)]
            /// all 2^56 payloads (type code in the dispatcher's range where the dispatcher guarantees it):
            /// a value or an error, no panic / overflow / out-of-bounds, loops terminate
            fn $name(s) {
                let a: [u8; 7] = s.bytes();
                let pre: fn(&[u8; 7]) -> bool = $pre;
                vassume!(pre(&a));
                let $r = $dec(&a);
                vcover!($cov);
                core::mem::forget($r);
            }
        }
    };
}
total!(total_bds05, d_bds05, |a| bds05_ok_tc(tc_of(a)));
total!(total_bds06, d_bds06, |a| bds06_ok_tc(tc_of(a)));
total!(total_bds08, d_bds08, |a| bds08_ok_tc(tc_of(a)));
total!(total_bds09, d_bds09, |_| true);
total!(total_bds61, d_bds61, |_| true);
total!(total_bds62, d_bds62, |_| true);
total!(total_bds65, d_bds65, |_| true);
total!(total_bds10, d_bds10, |_| true);
total!(total_bds17, d_bds17, |_| true);
total!(total_bds18, d_bds18, |_| true);
total!(total_bds19, d_bds19, |_| true);
total!(total_bds20, d_bds20, |_| true);
total!(total_bds21, d_bds21, |_| true);
total!(total_bds30, d_bds30, |_| true);
total!(total_bds40, d_bds40, |_| true);
total!(total_bds44, d_bds44, |_| true);
total!(total_bds45, d_bds45, |_| true);
total!(total_bds50, d_bds50, |_| true);
total!(total_bds60, d_bds60, |_| true);
// Comm-B hypotheses that are gated by the type code in commb.rs
total!(total_bds05_commb, d_bds05, |a| { let tc = tc_of(a); tc >= 9 && tc < 22 && tc != 19 });
// (read from bit 0 the 3-bit id is 7 = Reserved, which consumes 48 of the 56 bits: the hypothesis is
// always rejected with "Too much data"; the witness is therefore the error branch)
total!(total_bds65_commb, d_bds65_commb, |a| tc_of(a) == 31 && (a[0] & 7) < 2, |r| r.is_err());

// ---------------------------------------------------------------- (e) rendering of accepted payloads
macro_rules! render {
    ($name:ident, $dec:ident, $pre:expr) => {
        harness! {
            #[kani::unwind(17)]
            #[kani::stub(alloc::fmt::format, crate::stubs::fmt_stub)]
            #[kani::stub(libm::atan2, crate::stubs::k::atan2_stub)]
            #[kani::stub(libm::hypot, crate::stubs::k::hypot_stub)]
            #[kani::stub(libm::round, crate::stubs::k::round_stub)]
            /// Display of every accepted payload does not panic (digit generation of floats is
            /// outside: inner format! calls are stubbed)
            fn $name(s) {
                let a: [u8; 7] = s.bytes();
                let pre: fn(&[u8; 7]) -> bool = $pre;
                vassume!(pre(&a));
                if let Ok(m) = $dec(&a) {
                    let mut w = NullSink;
                    let r = write!(w, "{}", m);
                    vcover!(r.is_ok());
                    vassert!(r.is_ok(), "rendering returns Ok");
                    core::mem::forget(m);
                }
            }
        }
    };
}
render!(render_bds05, d_bds05, |a| bds05_ok_tc(tc_of(a)));
render!(render_bds06, d_bds06, |a| bds06_ok_tc(tc_of(a)));
render!(render_bds08, d_bds08, |a| bds08_ok_tc(tc_of(a)));
render!(render_bds09, d_bds09, |_| true);
render!(render_bds61, d_bds61, |_| true);
render!(render_bds62, d_bds62, |_| true);
render!(render_bds65, d_bds65, |_| true);

registry!(total_bds05, total_bds06, total_bds08, total_bds09, total_bds61, total_bds62, total_bds65,
          total_bds10, total_bds17, total_bds18, total_bds19, total_bds20, total_bds21, total_bds30,
          total_bds40, total_bds44, total_bds45, total_bds50, total_bds60, total_bds05_commb, total_bds65_commb,
          render_bds05, render_bds06, render_bds08, render_bds09, render_bds61, render_bds62, render_bds65);

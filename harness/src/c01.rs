//! C01 — Mode S decoding is total. (a) per payload type, all 56 bits symbolic;
//! (b) whole frames through Message::try_from with the discriminating bytes concrete;
//! (c) length discipline; (d) determinism; (e) rendering.
use crate::pay::*;
use crate::src::Src;
use core::fmt::Write as _;
use rs1090::prelude::*;

// ---------------------------------------------------------------- (a) payload totality
macro_rules! total {
    ($name:ident, $dec:ident, $pre:expr) => { total!($name, $dec, $pre, |r| r.is_ok()); };
    ($name:ident, $dec:ident, $pre:expr, |$r:ident| $cov:expr) => {
        harness! {
            #[kani::unwind(17)]
            #[kani::stub(alloc::fmt::format, crate::stubs::fmt_stub)]
            #[kani::stub(libm::atan2, crate::stubs::k::atan2_stub)]
            #[kani::stub(libm::hypot, crate::stubs::k::hypot_stub)]
            /// all 2^56 payloads (type code in the dispatcher's range where the dispatcher guarantees it):
            /// a value or an error, no panic / overflow / out-of-bounds, loops terminate
            fn $name(s) {
                let a: [u8; 7] = s.bytes();
                let pre: fn(&[u8; 7]) -> bool = $pre;
                vassume!(pre(&a));
                let $r = $dec(&a);
                vcover!($cov);
                core::mem::forget($r);
            }
        }
    };
}
total!(total_bds05, d_bds05, |a| bds05_ok_tc(tc_of(a)));
total!(total_bds06, d_bds06, |a| bds06_ok_tc(tc_of(a)));
total!(total_bds08, d_bds08, |a| bds08_ok_tc(tc_of(a)));
total!(total_bds09, d_bds09, |_| true);
total!(total_bds61, d_bds61, |_| true);
total!(total_bds62, d_bds62, |_| true);
total!(total_bds65, d_bds65, |_| true);
total!(total_bds10, d_bds10, |_| true);
total!(total_bds17, d_bds17, |_| true);
total!(total_bds18, d_bds18, |_| true);
total!(total_bds19, d_bds19, |_| true);
total!(total_bds20, d_bds20, |_| true);
total!(total_bds21, d_bds21, |_| true);
total!(total_bds30, d_bds30, |_| true);
total!(total_bds40, d_bds40, |_| true);
total!(total_bds44, d_bds44, |_| true);
total!(total_bds45, d_bds45, |_| true);
total!(total_bds50, d_bds50, |_| true);
total!(total_bds60, d_bds60, |_| true);
// Comm-B hypotheses that are gated by the type code in commb.rs
total!(total_bds05_commb, d_bds05, |a| { let tc = tc_of(a); tc >= 9 && tc < 22 && tc != 19 });
// (read from bit 0 the 3-bit id is 7 = Reserved, which consumes 48 of the 56 bits: the hypothesis is
// always rejected with "Too much data"; the witness is therefore the error branch)
total!(total_bds65_commb, d_bds65_commb, |a| tc_of(a) == 31 && (a[0] & 7) < 2, |r| r.is_err());


use crate::refs::syndrome;
use rs1090::decode::DF;
fn expect_len(b0: u8) -> usize { if (b0 >> 3) & 0x10 != 0 { 14 } else { 7 } }

// ---------------------------------------------------------------- (c) length discipline
// The first byte is concrete per harness and the length a concrete loop variable: with a symbolic
// first byte (or length) CBMC cannot decide the reader's "not enough data" branch during symbolic
// execution and enters every downlink-format arm behind it (out of memory at 9 GB, measured twice).
macro_rules! len_cut {
    ($name:ident, $b0:expr) => {
        harness! {
            #[kani::unwind(34)]
            #[kani::stub(alloc::fmt::format, crate::stubs::fmt_stub)]
            /// this first byte, any content, cut to EVERY length shorter than the downlink format
            /// prescribes (0..=6 for short, 0..=13 for long formats): an error, never a panic
            fn $name(s) {
                let mut buf: [u8; 14] = s.bytes();
                buf[0] = $b0;
                let want = expect_len($b0);
                let mut len = 0usize;
                while len < want {
                    let r = Message::try_from(&buf[..len]);
                    vcover!(r.is_err());
                    vassert!(r.is_err(), "a frame shorter than its downlink format prescribes is an error");
                    core::mem::forget(r);
                    len += 1;
                }
            }
        }
    };
}
len_cut!(len_cut_df04, 0x20);
len_cut!(len_cut_df11, 0x5d);
len_cut!(len_cut_df17, 0x8d);
len_cut!(len_cut_df20, 0xa0);

// everything below the payload / header-field totality harnesses (rendering, whole frames, length discipline, selector glue,
// over-long frames) is compiled only into the thorough build: Kani generates code for EVERY harness of the crate, and the
// quick command has 900 s for build + run
#[cfg(feature = "c01full")]
include!("c01_full.rs");

// ---------------------------------------------------------------- header field readers with hand-written arithmetic
// (the 13-bit altitude and identity fields of DF 0/4/5/16/20/21 headers): every 16-bit content of the two bytes they are
// read from, M bit included — the whole-frame harnesses that reach them through Message::try_from are thorough-tier.
harness! {
    #[kani::unwind(17)]
    #[kani::stub(alloc::fmt::format, crate::stubs::fmt_stub)]
    fn total_ac13(s) {
        let a: [u8; 2] = s.bytes();
        let r = <rs1090::decode::AC13Field as deku::DekuContainerRead>::from_bytes((&a[..], 3));
        vcover!(r.is_ok());
        core::mem::forget(r);
    }
}
harness! {
    #[kani::unwind(17)]
    #[kani::stub(alloc::fmt::format, crate::stubs::fmt_stub)]
    fn total_id13(s) {
        let a: [u8; 2] = s.bytes();
        let r = <rs1090::decode::IdentityCode as deku::DekuContainerRead>::from_bytes((&a[..], 3));
        vcover!(r.is_ok());
        core::mem::forget(r);
    }
}

registry!(len_cut_df04, len_cut_df11, len_cut_df17, len_cut_df20, total_ac13, total_id13, total_bds05, total_bds06, total_bds08, total_bds09, total_bds61, total_bds62, total_bds65, total_bds10, total_bds17, total_bds18, total_bds19, total_bds20, total_bds21, total_bds30, total_bds40, total_bds44, total_bds45, total_bds50, total_bds60, total_bds05_commb, total_bds65_commb);


//! C01 — Mode S decoding is total. (a) per payload type, all 56 bits symbolic;
//! (b) whole frames through Message::try_from with the discriminating bytes concrete;
//! (c) length discipline; (d) determinism; (e) rendering.
use crate::pay::*;
use crate::src::Src;
use core::fmt::Write as _;
use rs1090::prelude::*;

// ---------------------------------------------------------------- (a) payload totality
macro_rules! total {
    ($name:ident, $dec:ident, $pre:expr) => { total!($name, $dec, $pre, |r| r.is_ok()); };
    ($name:ident, $dec:ident, $pre:expr, |$r:ident| $cov:expr) => {
        harness! {
            #[kani::unwind(17)]
            #[kani::stub(alloc::fmt::format, crate::stubs::fmt_stub)]
            #[kani::stub(libm::atan2, crate::stubs::k::atan2_stub)]
            #[kani::stub(libm::hypot, crate::stubs::k::hypot_stub)]
            /// all 2^56 payloads (type code in the dispatcher's range where the dispatcher guarantees it):
            /// a value or an error, no panic / overflow / out-of-bounds, loops terminate
            fn $name(s) {
                let a: [u8; 7] = s.bytes();
                let pre: fn(&[u8; 7]) -> bool = $pre;
                vassume!(pre(&a));
                let $r = $dec(&a);
                vcover!($cov);
                core::mem::forget($r);
            }
        }
    };
}
total!(total_bds05, d_bds05, |a| bds05_ok_tc(tc_of(a)));
total!(total_bds06, d_bds06, |a| bds06_ok_tc(tc_of(a)));
total!(total_bds08, d_bds08, |a| bds08_ok_tc(tc_of(a)));
total!(total_bds09, d_bds09, |_| true);
total!(total_bds61, d_bds61, |_| true);
total!(total_bds62, d_bds62, |_| true);
total!(total_bds65, d_bds65, |_| true);
total!(total_bds10, d_bds10, |_| true);
total!(total_bds17, d_bds17, |_| true);
total!(total_bds18, d_bds18, |_| true);
total!(total_bds19, d_bds19, |_| true);
total!(total_bds20, d_bds20, |_| true);
total!(total_bds21, d_bds21, |_| true);
total!(total_bds30, d_bds30, |_| true);
total!(total_bds40, d_bds40, |_| true);
total!(total_bds44, d_bds44, |_| true);
total!(total_bds45, d_bds45, |_| true);
total!(total_bds50, d_bds50, |_| true);
total!(total_bds60, d_bds60, |_| true);
// Comm-B hypotheses that are gated by the type code in commb.rs
total!(total_bds05_commb, d_bds05, |a| { let tc = tc_of(a); tc >= 9 && tc < 22 && tc != 19 });
// (read from bit 0 the 3-bit id is 7 = Reserved, which consumes 48 of the 56 bits: the hypothesis is
// always rejected with "Too much data"; the witness is therefore the error branch)
total!(total_bds65_commb, d_bds65_commb, |a| tc_of(a) == 31 && (a[0] & 7) < 2, |r| r.is_err());

// ---------------------------------------------------------------- (e) rendering of accepted payloads
macro_rules! render {
    ($name:ident, $dec:ident, $pre:expr) => {
        harness! {
            #[kani::unwind(17)]
            #[kani::stub(alloc::fmt::format, crate::stubs::fmt_stub)]
            #[kani::stub(libm::atan2, crate::stubs::k::atan2_stub)]
            #[kani::stub(libm::hypot, crate::stubs::k::hypot_stub)]
            #[kani::stub(libm::round, crate::stubs::k::round_stub)]
            /// Display of every accepted payload does not panic (digit generation of floats is
            /// outside: inner format! calls are stubbed)
            fn $name(s) {
                let a: [u8; 7] = s.bytes();
                let pre: fn(&[u8; 7]) -> bool = $pre;
                vassume!(pre(&a));
                if let Ok(m) = $dec(&a) {
                    let mut w = NullSink;
                    let r = write!(w, "{}", m);
                    vcover!(r.is_ok());
                    vassert!(r.is_ok(), "rendering returns Ok");
                    core::mem::forget(m);
                }
            }
        }
    };
}
render!(render_bds05, d_bds05, |a| bds05_ok_tc(tc_of(a)));
render!(render_bds06, d_bds06, |a| bds06_ok_tc(tc_of(a)));
render!(render_bds08, d_bds08, |a| bds08_ok_tc(tc_of(a)));
render!(render_bds09, d_bds09, |_| true);
render!(render_bds61, d_bds61, |_| true);
render!(render_bds62, d_bds62, |_| true);
render!(render_bds65, d_bds65, |_| true);

// ---------------------------------------------------------------- (b) whole frames through Message::try_from
// The discriminating bytes are concrete (CBMC executes only the selected arm), every other bit is symbolic.
// Each of these costs ~50 min of symbolic execution (moves of the 1.5 kB DF value): thorough tier.
use crate::refs::syndrome;
use rs1090::decode::DF;

fn expect_len(b0: u8) -> usize { if (b0 >> 3) & 0x10 != 0 { 14 } else { 7 } }

macro_rules! frame_short {
    ($name:ident, $b0:expr) => {
        harness! {
            #[kani::unwind(17)]
            #[kani::stub(alloc::fmt::format, crate::stubs::fmt_stub)]
            /// every 56-bit frame with this first byte: a message or an error, no panic; the crc
            /// field is the reference remainder
            fn $name(s) {
                let mut f: [u8; 7] = s.bytes();
                f[0] = $b0;
                let r = Message::try_from(&f[..]);
                vcover!(r.is_ok());
                if let Ok(m) = &r {
                    vassert!(m.crc == syndrome(&f, 7), "crc field is the remainder of the frame");
                    if let DF::AllCallReply { icao, .. } = &m.df {
                        vassert!(icao.0 == (f[1] as u32) << 16 | (f[2] as u32) << 8 | f[3] as u32, "AA is bits 9..32 of the frame");
                    }
                }
                core::mem::forget(r);
            }
        }
    };
}
frame_short!(frame_df0, 0x02);
frame_short!(frame_df4, 0x20);
frame_short!(frame_df5, 0x28);
frame_short!(frame_df11, 0x5d);
frame_short!(frame_df11_ca0, 0x58);

macro_rules! frame_long {
    ($name:ident, $b0:expr, $b4:expr, $fixcrc:expr) => {
        harness! {
            #[kani::unwind(17)]
            #[kani::stub(alloc::fmt::format, crate::stubs::fmt_stub)]
            #[kani::stub(libm::atan2, crate::stubs::k::atan2_stub)]
            #[kani::stub(libm::hypot, crate::stubs::k::hypot_stub)]
            /// every 112-bit frame with this first byte (and, for DF17/18, this type-code byte; the
            /// parity of DF17 frames is made valid by construction so that the accepting branch is
            /// reachable): a message or an error, no panic
            fn $name(s) {
                let mut f: [u8; 14] = s.bytes();
                f[0] = $b0;
                let b4: Option<u8> = $b4;
                if let Some(v) = b4 { f[4] = v; }
                if $fixcrc {
                    f[11] = 0; f[12] = 0; f[13] = 0;
                    let p = syndrome(&f, 14);
                    f[11] = (p >> 16) as u8; f[12] = (p >> 8) as u8; f[13] = p as u8;
                }
                let r = Message::try_from(&f[..]);
                vcover!(r.is_ok());
                if let Ok(m) = &r {
                    vassert!(m.crc == syndrome(&f, 14), "crc field is the remainder of the frame");
                    match &m.df {
                        DF::ExtendedSquitterADSB(a) => vassert!(a.icao24.0 == (f[1] as u32) << 16 | (f[2] as u32) << 8 | f[3] as u32, "AA is bits 9..32 of the frame"),
                        DF::ExtendedSquitterTisB { cf, .. } => vassert!(cf.aa.0 == (f[1] as u32) << 16 | (f[2] as u32) << 8 | f[3] as u32, "AA is bits 9..32 of the frame"),
                        _ => {}
                    }
                }
                core::mem::forget(r);
            }
        }
    };
}
frame_long!(frame_df16, 0x80, None, false);
frame_long!(frame_df19, 0x98, None, false);
frame_long!(frame_df24, 0xc0, None, false);
frame_long!(frame_df17_tc00, 0x8d, Some(0x00), true);
frame_long!(frame_df17_tc04, 0x8d, Some(0x20), true);
frame_long!(frame_df17_tc07, 0x8d, Some(0x38), true);
frame_long!(frame_df17_tc11, 0x8d, Some(0x58), true);
frame_long!(frame_df17_tc19_st1, 0x8d, Some(0x99), true);
frame_long!(frame_df17_tc19_st0, 0x8d, Some(0x98), true);
frame_long!(frame_df17_tc28, 0x8d, Some(0xe1), true);
frame_long!(frame_df17_tc29, 0x8d, Some(0xe8), true);
frame_long!(frame_df17_tc31_v0, 0x8d, Some(0xf8), true);
frame_long!(frame_df17_tc31_r2, 0x8d, Some(0xfa), true);
frame_long!(frame_df17_tc23, 0x8d, Some(0xb8), true);
frame_long!(frame_df18_tc11, 0x92, Some(0x58), false);
frame_long!(frame_df18_tc19, 0x90, Some(0x99), false);

// ---------------------------------------------------------------- (c) length discipline
harness! {
    #[kani::unwind(34)]
    #[kani::stub(alloc::fmt::format, crate::stubs::fmt_stub)]
    /// ANY first byte (all 32 downlink formats), any content, any length shorter than the format
    /// prescribes (0..=6 for short, 0..=13 for long formats): an error, never a panic
    fn len_too_short(s) {
        let buf: [u8; 14] = s.bytes();
        let len = s.below(14) as usize;
        vassume!(len < expect_len(buf[0]));
        let r = Message::try_from(&buf[..len]);
        vcover!(len == 13);
        vcover!(len == 0);
        vassert!(r.is_err(), "a frame shorter than its downlink format prescribes is an error");
        core::mem::forget(r);
    }
}

harness! {
    #[kani::unwind(34)]
    #[kani::stub(alloc::fmt::format, crate::stubs::fmt_stub)]
    /// DF11 with any content and any length 7..=32: accepted only at exactly 7 bytes
    fn len_df11(s) {
        let mut buf: [u8; 32] = s.bytes();
        buf[0] = 0x5d;
        let len = s.below(33) as usize;
        vassume!(len >= 7);
        let r = Message::try_from(&buf[..len]);
        vcover!(r.is_ok());
        vcover!(len == 32);
        if r.is_ok() { vassert!(len == 7, "accepted only at the length the downlink format prescribes"); }
        core::mem::forget(r);
    }
}

harness! {
    #[kani::unwind(17)]
    #[kani::stub(alloc::fmt::format, crate::stubs::fmt_stub)]
    /// decoding the same bytes twice gives equal results (DF11 instance)
    fn determinism_df11(s) {
        let mut f: [u8; 7] = s.bytes();
        f[0] = 0x5d;
        let r1 = Message::try_from(&f[..]);
        let r2 = Message::try_from(&f[..]);
        vcover!(r1.is_ok());
        match (&r1, &r2) {
            (Ok(a), Ok(b)) => vassert!(a == b, "same bytes, same message"),
            (Err(_), Err(_)) => {}
            _ => vassert!(false, "same bytes, same verdict"),
        }
        core::mem::forget((r1, r2));
    }
}

registry!(frame_df0, frame_df4, frame_df5, frame_df11, frame_df11_ca0, frame_df16, frame_df19, frame_df24,
          frame_df17_tc00, frame_df17_tc04, frame_df17_tc07, frame_df17_tc11, frame_df17_tc19_st1, frame_df17_tc19_st0,
          frame_df17_tc28, frame_df17_tc29, frame_df17_tc31_v0, frame_df17_tc31_r2, frame_df17_tc23, frame_df18_tc11, frame_df18_tc19,
          len_too_short, len_df11, determinism_df11,
          total_bds05, total_bds06, total_bds08, total_bds09, total_bds61, total_bds62, total_bds65,
          total_bds10, total_bds17, total_bds18, total_bds19, total_bds20, total_bds21, total_bds30,
          total_bds40, total_bds44, total_bds45, total_bds50, total_bds60, total_bds05_commb, total_bds65_commb,
          render_bds05, render_bds06, render_bds08, render_bds09, render_bds61, render_bds62, render_bds65);

//! C10 — deduplication (`jet1090::dedup::deduplicate_messages`): every reception in exactly one record, per window.
//!
//! PARTIAL CLAIM (DESIGN 7.7).  Kani build: the TEXT of `deduplicate_messages` is sliced verbatim from
//! crates/jet1090/src/dedup.rs on every run (tools/gen.py) and compiled against small environment models bound to the
//! names it uses (`HashMap`, `BinaryHeap`, `mpsc`, `SystemTime`, `TimedMessage`, `SensorMetadata`, `Message`, `info!`):
//! the real types are what made the earlier attempts intractable (a 1.5 kB `Option<Message>` moved through channel, map,
//! `Vec::remove` and channel again; `HashMap<Vec<u8>, _>`; tokio's mpsc crashes Kani).  What is decided is the protocol of
//! the function — group opening, expiry heap, closing order, merge of the receptions — for every history in the bound.
//! Native replay: the REAL dedup.rs (`#[path]`-included, real rs1090 types and decoder, real frames) on the same history.
use crate::src::Src;

/// one reception of the history
#[derive(Clone, Copy)]
pub struct Rx {
    pub frame: u8, // 0 = A, 1 = B
    pub ts: f64,
}
/// one emitted record
#[derive(Clone, Debug, PartialEq)]
pub struct OutRec {
    pub step: usize,
    pub frame: u8,
    pub ts_bits: u64,
    pub ids: Vec<u8>,
}

pub fn ms(ts: f64) -> u128 {
    (ts * 1e3) as u128
}

// ------------------------------------------------------------------------------------------------ Kani side: models
#[cfg(kani)]
pub mod model {
    use super::*;
    use core::cell::RefCell;

    pub static mut DECODABLE: [bool; 2] = [true, true];
    pub static mut STEP: usize = 0;

    #[derive(Clone, Debug, PartialEq)]
    pub struct SensorMetadata {
        pub id: u8,
    }
    pub struct Message;
    impl Message {
        /// decodability of a frame is an arbitrary (harness-chosen) predicate of the frame
        pub fn from_bytes(input: (&[u8], usize)) -> Result<((), Message), ()> {
            let f = input.0[0] as usize;
            if unsafe { DECODABLE[f & 1] } { Ok(((), Message)) } else { Err(()) }
        }
    }
    pub struct TimedMessage {
        pub timestamp: f64,
        pub frame: Vec<u8>,
        pub message: Option<Message>,
        pub metadata: Vec<SensorMetadata>,
        pub decode_time: Option<f64>,
    }
    pub struct SystemTime;
    impl SystemTime {
        pub fn now() -> Self { SystemTime }
        pub fn duration_since(&self, _e: std::time::SystemTime) -> Result<std::time::Duration, ()> {
            Ok(std::time::Duration::from_secs(1_700_000_000))
        }
    }

    /// association list with the API subset dedup.rs uses
    pub struct HashMap<K, V> {
        slots: [Option<(K, V)>; 3],
    }
    pub struct Entry<'a, K, V> {
        m: &'a mut HashMap<K, V>,
        i: usize,
        k: Option<K>,
    }
    impl<K: PartialEq, V> HashMap<K, V> {
        pub fn new() -> Self { HashMap { slots: [None, None, None] } }
        /// loop-free on purpose (three slots): every loop in a model multiplies with the unwinding of the loops of the
        /// function under test
        fn hit(&self, i: usize, k: &K) -> bool {
            match &self.slots[i] { Some((kk, _)) => kk == k, None => false }
        }
        fn find(&self, k: &K) -> Option<usize> {
            if self.hit(0, k) { Some(0) } else if self.hit(1, k) { Some(1) } else if self.hit(2, k) { Some(2) } else { None }
        }
        pub fn entry(&mut self, k: K) -> Entry<'_, K, V> {
            match self.find(&k) {
                Some(i) => Entry { m: self, i, k: None },
                None => {
                    let i = if self.slots[0].is_none() { 0 } else if self.slots[1].is_none() { 1 } else { 2 };
                    assert!(self.slots[i].is_none(), "model map holds at most three keys");
                    Entry { m: self, i, k: Some(k) }
                }
            }
        }
        pub fn remove(&mut self, k: &K) -> Option<V> {
            match self.find(k) {
                Some(i) => self.slots[i].take().map(|(_, v)| v),
                None => None,
            }
        }
    }
    impl<'a, K, V: Default> Entry<'a, K, V> {
        pub fn or_default(self) -> &'a mut V {
            if let Some(k) = self.k { self.m.slots[self.i] = Some((k, V::default())); }
            &mut self.m.slots[self.i].as_mut().unwrap().1
        }
    }
    impl<K: PartialEq, V> core::ops::Index<&K> for HashMap<K, V> {
        type Output = V;
        fn index(&self, k: &K) -> &V { &self.slots[self.find(k).expect("key present")].as_ref().unwrap().1 }
    }

    /// max-heap as three unsorted slots, loop-free (at most two groups are open: one per frame)
    pub struct BinaryHeap<T> {
        slots: [Option<T>; 3],
    }
    impl<T: Ord> BinaryHeap<T> {
        pub fn new() -> Self { BinaryHeap { slots: [None, None, None] } }
        pub fn push(&mut self, t: T) {
            if self.slots[0].is_none() { self.slots[0] = Some(t); }
            else if self.slots[1].is_none() { self.slots[1] = Some(t); }
            else if self.slots[2].is_none() { self.slots[2] = Some(t); }
            else { panic!("model heap holds at most three entries"); }
        }
        fn better(&self, i: usize, b: Option<usize>) -> Option<usize> {
            match (&self.slots[i], b) {
                (None, _) => b,
                (Some(_), None) => Some(i),
                (Some(x), Some(j)) => if *x > *self.slots[j].as_ref().unwrap() { Some(i) } else { Some(j) },
            }
        }
        pub fn pop(&mut self) -> Option<T> {
            let b = self.better(0, None);
            let b = self.better(1, b);
            let b = self.better(2, b);
            match b { Some(j) => self.slots[j].take(), None => None }
        }
    }

    pub mod mpsc {
        use super::*;
        pub struct Receiver<T> { pub items: [Option<T>; 4], pub next: usize }
        /// writes into a buffer owned by the harness (the function under test takes the Sender by value)
        pub struct Sender<T> { pub out: *mut Vec<(usize, T)> }
        #[derive(Debug)]
        pub struct SendError;
        impl core::fmt::Display for SendError {
            fn fmt(&self, _f: &mut core::fmt::Formatter<'_>) -> core::fmt::Result { Ok(()) }
        }
        impl<T> Receiver<T> {
            pub async fn recv(&mut self) -> Option<T> {
                if self.next >= 4 { return None; }
                let r = self.items[self.next].take();
                if r.is_some() { unsafe { STEP = self.next; } }
                self.next += 1;
                r
            }
        }
        impl<T> Sender<T> {
            pub async fn send(&self, v: T) -> Result<(), SendError> {
                unsafe { (*self.out).push((STEP, v)); }
                Ok(())
            }
        }
    }

    macro_rules! info { ($($t:tt)*) => {}; }
    pub(crate) use info;
}

#[cfg(kani)]
pub mod slice {
    include!("gen/c10_slice.rs");
}

/// frames: one byte (the frame id) under Kani; natively real Mode S frames
#[cfg(kani)]
fn run_impl(h: &[Rx], thr: u32, dec: [bool; 2]) -> Vec<OutRec> {
    use model::*;
    unsafe { DECODABLE = dec; STEP = 0; }
    let mut items: [Option<TimedMessage>; 4] = [None, None, None, None];
    let mut k = 0;
    while k < h.len() {
        items[k] = Some(TimedMessage { timestamp: h[k].ts, frame: vec![h[k].frame], message: None, metadata: vec![SensorMetadata { id: k as u8 }], decode_time: None });
        k += 1;
    }
    let mut out: Vec<(usize, TimedMessage)> = Vec::new();
    let rx = mpsc::Receiver { items, next: 0 };
    let tx = mpsc::Sender { out: &mut out as *mut _ };
    drive(slice::deduplicate_messages(rx, tx, thr));
    let mut res = Vec::new();
    for (step, t) in out {
        let mut ids = Vec::new();
        for m in t.metadata.iter() { ids.push(m.id); }
        vassert!(t.message.is_some(), "an emitted record carries the decoded message");
        res.push(OutRec { step, frame: t.frame[0], ts_bits: t.timestamp.to_bits(), ids });
        core::mem::forget(t);
    }
    res
}

// ------------------------------------------------------------------------------------------------ native side: the real file
#[cfg(not(kani))]
#[path = "../../repo/crates/jet1090/src/dedup.rs"]
mod dedup_real;

#[cfg(not(kani))]
const FRAMES: [[[u8; 7]; 2]; 2] = [
    // frame A: undecodable (DF1) / decodable (DF11 sample);  frame B: undecodable (DF2) / decodable (DF0 sample)
    [[0x08, 0, 0, 0, 0, 0, 0], [0x5d, 0x3c, 0x66, 0x14, 0xc7, 0xb8, 0xa2]],
    [[0x10, 0xff, 0xff, 0xff, 0xff, 0xff, 0xff], [0x02, 0xe1, 0x9c, 0xb0, 0x25, 0x12, 0xc3]],
];
#[cfg(not(kani))]
fn run_real_prefix(h: &[Rx], thr: u32, dec: [bool; 2]) -> Vec<OutRec> {
    use rs1090::decode::{SensorMetadata, TimedMessage};
    let (tx_in, rx_in) = tokio::sync::mpsc::channel::<TimedMessage>(16);
    let (tx_out, mut rx_out) = tokio::sync::mpsc::channel::<TimedMessage>(16);
    for (k, r) in h.iter().enumerate() {
        let f = FRAMES[r.frame as usize][dec[r.frame as usize] as usize].to_vec();
        let md = SensorMetadata { system_timestamp: r.ts, gnss_timestamp: None, nanoseconds: None, rssi: None, serial: k as u64, name: None };
        let _ = drive(tx_in.send(TimedMessage { timestamp: r.ts, frame: f, message: None, metadata: vec![md], decode_time: None }));
    }
    drop(tx_in);
    drive(dedup_real::deduplicate_messages(rx_in, tx_out, thr));
    let mut res = Vec::new();
    while let Ok(t) = rx_out.try_recv() {
        let fid = if t.frame[0] == FRAMES[0][0][0] || t.frame[0] == FRAMES[0][1][0] { 0 } else { 1 };
        assert!(t.message.is_some(), "PROP: an emitted record carries the decoded message");
        res.push(OutRec { step: 0, frame: fid, ts_bits: t.timestamp.to_bits(), ids: t.metadata.iter().map(|m| m.serial as u8).collect() });
    }
    res
}
/// natively the step at which a record leaves is found by running every prefix of the history (the function is
/// deterministic): what prefix k emits beyond prefix k-1 left at step k
#[cfg(not(kani))]
fn run_impl(h: &[Rx], thr: u32, dec: [bool; 2]) -> Vec<OutRec> {
    let mut res: Vec<OutRec> = Vec::new();
    for k in 1..=h.len() {
        let o = run_real_prefix(&h[..k], thr, dec);
        assert!(o.len() >= res.len(), "PROP: a longer history emits at least the records of its prefix");
        for (i, r) in o.into_iter().enumerate() {
            if i < res.len() {
                let mut a = r.clone(); a.step = res[i].step;
                assert!(a == res[i], "PROP: records already emitted do not change when more receptions arrive");
            } else {
                let mut a = r; a.step = k - 1;
                res.push(a);
            }
        }
    }
    res
}

// ------------------------------------------------------------------------------------------------ oracle
/// reference model written from the property: a group opens at the first reception of a frame with no open group; every
/// reception first joins (or opens) its group, then every group whose window has closed (first arrival + window <= now, in
/// milliseconds) leaves, carrying frame, first-arrival timestamp and the receptions in arrival order; undecodable frames
/// are dropped when their group closes.
fn run_model(h: &[Rx], thr: u32, dec: [bool; 2]) -> Vec<OutRec> {
    let mut open: [Option<(u128, u64, Vec<u8>)>; 2] = [None, None]; // per frame: (expiry ms, first ts bits, ids)
    let mut res = Vec::new();
    let mut k = 0;
    while k < h.len() {
        let r = h[k];
        let now = ms(r.ts);
        let f = r.frame as usize;
        match &mut open[f] {
            Some(g) => g.2.push(k as u8),
            None => open[f] = Some((now + thr as u128, r.ts.to_bits(), vec![k as u8])),
        }
        // close in order of (expiry, frame)
        let mut round = 0;
        while round < 2 {
            let pick = match (&open[0], &open[1]) {
                (Some(a), Some(b)) => Some(if a.0 <= b.0 { 0 } else { 1 }),
                (Some(_), None) => Some(0),
                (None, Some(_)) => Some(1),
                _ => None,
            };
            if let Some(p) = pick {
                if open[p].as_ref().unwrap().0 <= now {
                    let g = open[p].take().unwrap();
                    if dec[p] { res.push(OutRec { step: k, frame: p as u8, ts_bits: g.1, ids: g.2 }); }
                }
            }
            round += 1;
        }
        k += 1;
    }
    res
}

fn eq_rec(a: &OutRec, b: &OutRec) -> bool {
    if a.step != b.step || a.frame != b.frame || a.ts_bits != b.ts_bits || a.ids.len() != b.ids.len() { return false; }
    let mut i = 0;
    while i < a.ids.len() { if a.ids[i] != b.ids[i] { return false; } i += 1; }
    true
}

pub fn check_history(h: &[Rx], thr: u32, dec: [bool; 2]) {
    let got = run_impl(h, thr, dec);
    let want = run_model(h, thr, dec);
    crate::vcover!(got.len() >= 1);
    crate::vcover!(got.len() >= 2);
    // (1) nothing invented, nothing duplicated; receptions of a record in arrival order, all of the record's frame; the
    //     record's timestamp is the first member's
    let mut seen = [false; 4];
    let mut i = 0;
    while i < got.len() {
        let r = &got[i];
        vassert!(r.ids.len() >= 1, "a record carries at least one reception");
        let mut j = 0;
        while j < r.ids.len() {
            let id = r.ids[j] as usize;
            vassert!(id < h.len(), "no reception is invented");
            vassert!(!seen[id], "no reception is duplicated");
            seen[id] = true;
            vassert!(h[id].frame == r.frame, "a record only carries receptions of its own frame");
            if j > 0 { vassert!(r.ids[j - 1] < r.ids[j], "receptions of a record are in arrival order"); }
            j += 1;
        }
        vassert!(r.ts_bits == h[r.ids[0] as usize].ts.to_bits(), "a record carries the timestamp of the first arrival of its group");
        i += 1;
    }
    // (2) every record the rules let out is there, at the step at which its window closed, and no other; records of one
    //     step may come in either order when their expiries are equal
    vassert!(got.len() == want.len(), "exactly the groups whose window has closed are emitted (none lost, none early, none twice)");
    let mut i = 0;
    while i < got.len() {
        let mut found = false;
        let mut j = 0;
        while j < want.len() { if eq_rec(&got[i], &want[j]) { found = true; } j += 1; }
        vassert!(found, "each emitted record is a group whose window has just closed, with all its receptions");
        i += 1;
    }
    // (3) non-decreasing arrival times: records leave in order of first arrival, and two records of one frame are at least a
    //     window apart
    let mut mono = true;
    let mut k = 1;
    while k < h.len() { if !(h[k - 1].ts <= h[k].ts) { mono = false; } k += 1; }
    if mono {
        let mut i = 1;
        while i < got.len() {
            vassert!(ms(f64::from_bits(got[i - 1].ts_bits)) <= ms(f64::from_bits(got[i].ts_bits)), "records leave in order of first arrival");
            i += 1;
        }
        let mut i = 0;
        while i < got.len() {
            let mut j = i + 1;
            while j < got.len() {
                if got[i].frame == got[j].frame {
                    vassert!(ms(f64::from_bits(got[j].ts_bits)) >= ms(f64::from_bits(got[i].ts_bits)) + thr as u128, "two records of one frame have first arrivals at least a window apart");
                }
                j += 1;
            }
            i += 1;
        }
    }
    core::mem::forget(got);
    core::mem::forget(want);
}

fn draw_ts<S: Src>(s: &mut S) -> f64 {
    let t = s.f64();
    vassume!(t.is_finite() && t >= 0.0 && t < 4.0e9);
    t
}

macro_rules! history {
    ($name:ident, $unw:expr, [$($f:expr),*]) => {
        harness! {
            #[kani::unwind($unw)]
            #[kani::stub(alloc::fmt::format, crate::stubs::fmt_stub)]
            /// which frame each reception carries is concrete; every timestamp (any order), every window length, both
            /// decodability verdicts per frame are symbolic
            fn $name(s) {
                let h = [$(Rx { frame: $f, ts: draw_ts(s) }),*];
                let thr = s.u32();
                let dec = [s.bool(), s.bool()];
                check_history(&h, thr, dec);
            }
        }
    };
}
history!(h2_aa, 4, [0, 0]);
history!(h2_ab, 4, [0, 1]);
history!(h3_aaa, 5, [0, 0, 0]);
history!(h3_aab, 5, [0, 0, 1]);
history!(h3_aba, 5, [0, 1, 0]);
history!(h3_abb, 5, [0, 1, 1]);
history!(h4_aaaa, 6, [0, 0, 0, 0]);
history!(h4_abab, 6, [0, 1, 0, 1]);
history!(h4_aabb, 6, [0, 0, 1, 1]);
history!(h4_abba, 6, [0, 1, 1, 0]);

registry!(h2_aa, h2_ab, h3_aaa, h3_aab, h3_aba, h3_abb, h4_aaaa, h4_abab, h4_aabb, h4_abba);

/// polls a future that never waits (every model operation is immediately ready)
pub fn drive<F: core::future::Future>(fut: F) -> F::Output {
    use core::task::{Context, Poll, RawWaker, RawWakerVTable, Waker};
    fn clone(_: *const ()) -> RawWaker { RawWaker::new(core::ptr::null(), &VT) }
    fn noop(_: *const ()) {}
    static VT: RawWakerVTable = RawWakerVTable::new(clone, noop, noop, noop);
    let waker = unsafe { Waker::from_raw(RawWaker::new(core::ptr::null(), &VT)) };
    let mut cx = Context::from_waker(&waker);
    let mut fut = core::pin::pin!(fut);
    let mut n = 0;
    loop {
        if let Poll::Ready(v) = fut.as_mut().poll(&mut cx) { return v; }
        n += 1;
        assert!(n < 2, "model futures are always ready");
    }
}

//! vh — verification harnesses for xoolive/rs1090 (see /verif/DESIGN.md).
//!
//! The same harness bodies are compiled twice:
//!  * by `cargo kani` (cfg(kani)) against the environment models of DESIGN 2.2, where
//!    the nondeterministic source `Src` is `kani::any()`;
//!  * natively by /verif/replay against the REAL dependency tree, where `Src` is a byte
//!    tape taken from a counterexample that Kani's concrete playback printed.
#![allow(dead_code, unused_imports, unused_macros, clippy::all)]
#![recursion_limit = "512"]
#![cfg_attr(kani, feature(allocator_api))]

pub mod src;
pub mod stubs;
pub mod refs;

#[macro_use]
pub mod macros;

pub mod pay;
#[cfg(kani)]
pub mod selstubs;
pub mod recser;
#[cfg(feature = "c01")]
pub mod c01;
#[cfg(feature = "c02")]
pub mod c02;
#[cfg(feature = "c03")]
pub mod c03;
#[cfg(any(feature = "c04", feature = "c05"))]
pub mod c04;
#[cfg(feature = "c05")]
pub mod c05;
#[cfg(feature = "c06")]
pub mod c06;
#[cfg(feature = "c07")]
pub mod c07;
#[cfg(feature = "c08")]
pub mod c08;
#[cfg(feature = "c10")]
pub mod c10;
#[cfg(feature = "c11")]
pub mod c11;
#[cfg(any(feature = "c13", feature = "c03", feature = "c08"))]
pub mod c13;
#[cfg(feature = "c14")]
pub mod c14;
#[cfg(feature = "c15")]
pub mod c15;
#[cfg(feature = "c17")]
pub mod c17;
#[cfg(feature = "c18")]
pub mod c18;

/// name -> body, for the native replay binary
pub fn registry() -> Vec<(&'static str, fn(&mut src::Tape))> {
    let mut v: Vec<(&'static str, fn(&mut src::Tape))> = Vec::new();
    #[cfg(feature = "c01")]
    v.extend_from_slice(c01::ALL);
    #[cfg(feature = "c01full")]
    v.extend_from_slice(c01::FULL);
    #[cfg(feature = "c02")]
    v.extend_from_slice(c02::ALL);
    #[cfg(feature = "c03")]
    v.extend_from_slice(c03::ALL);
    #[cfg(feature = "c04")]
    { v.extend_from_slice(c04::BASE); v.extend_from_slice(c04::LAT_ALL); v.extend_from_slice(c04::LON_ALL); }
    #[cfg(feature = "c05")]
    { v.extend_from_slice(c05::BASE); v.extend_from_slice(c05::LATZ_ALL); v.extend_from_slice(c05::LON_ALL); }
    #[cfg(feature = "c06")]
    v.extend_from_slice(c06::ALL);
    #[cfg(feature = "c07")]
    v.extend_from_slice(c07::ALL);
    #[cfg(feature = "c08")]
    v.extend_from_slice(c08::ALL);
    #[cfg(feature = "c10")]
    v.extend_from_slice(c10::ALL);
    #[cfg(feature = "c11")]
    v.extend_from_slice(c11::ALL);
    #[cfg(any(feature = "c13", feature = "c03", feature = "c08"))]
    v.extend_from_slice(c13::ALL);
    #[cfg(feature = "c14")]
    v.extend_from_slice(c14::ALL);
    #[cfg(feature = "c15")]
    v.extend_from_slice(c15::ALL);
    #[cfg(feature = "c15obs")]
    v.extend_from_slice(c15::OBS);
    #[cfg(feature = "c17")]
    v.extend_from_slice(c17::ALL);
    #[cfg(feature = "c18")]
    v.extend_from_slice(c18::ALL);
    v
}

//! vh — verification harnesses for xoolive/rs1090 (see /verif/DESIGN.md).
//!
//! The same harness bodies are compiled twice:
//!  * by `cargo kani` (cfg(kani)) against the environment models of DESIGN 2.2, where
//!    the nondeterministic source `Src` is `kani::any()`;
//!  * natively by /verif/replay against the REAL dependency tree, where `Src` is a byte
//!    tape taken from a counterexample that Kani's concrete playback printed.
#![allow(dead_code, unused_imports, unused_macros, clippy::all)]
#![cfg_attr(kani, feature(allocator_api))]

pub mod src;
pub mod stubs;
pub mod refs;

#[macro_use]
pub mod macros;

#[cfg(feature = "c13")]
pub mod c13;
#[cfg(feature = "c18")]
pub mod c18;

/// name -> body, for the native replay binary
pub fn registry() -> Vec<(&'static str, fn(&mut src::Tape))> {
    let mut v: Vec<(&'static str, fn(&mut src::Tape))> = Vec::new();
    #[cfg(feature = "c13")]
    v.extend_from_slice(c13::ALL);
    #[cfg(feature = "c18")]
    v.extend_from_slice(c18::ALL);
    v
}

//! Structure-recording `serde::Serializer` (DESIGN 3/C07).  It implements the data model the
//! way `serde_json` does structurally (maps / structs / sequences / unit variants as strings,
//! newtype variants as single-key objects …) but instead of formatting digits it records:
//!   * whether any key is repeated inside one JSON object (flattened fields land in the
//!     parent's object, exactly as in serde_json, because the real `serde::__private::ser`
//!     FlatMapSerializer / TaggedSerializer run on top of it);
//!   * whether any f32/f64 leaf is NaN or infinite, any string leaf holds a control character;
//!   * the string values of the top-level keys `df`, `icao24`, `frame`.
//! Errors of the real serde machinery ("can only flatten structs and maps", "cannot serialize
//! tagged newtype variant …") surface as `Err(E)`.
use core::cell::Cell;
use serde::ser::{self, Serialize};

#[derive(Debug)]
pub struct E;
impl core::fmt::Display for E {
    fn fmt(&self, _f: &mut core::fmt::Formatter<'_>) -> core::fmt::Result {
        Ok(())
    }
}
impl std::error::Error for E {}
impl ser::Error for E {
    fn custom<T: core::fmt::Display>(_m: T) -> Self {
        E
    }
}

pub const CAP: usize = 32;
#[derive(Clone, Copy)]
pub struct Captured {
    pub count: u8,
    /// numeric value when the entry was fed from an `ICAO` / `IcaoParity` (read by layout: both are
    /// `pub struct X(pub u32)`); lets a harness identify WHICH field feeds the entry even when the
    /// hex formatting (`format!("{:06x}")`) is stubbed out
    pub has_num: bool,
    pub num: u32,
    pub is_str: bool,
    pub len: usize,
    pub buf: [u8; CAP],
}
impl Captured {
    const fn new() -> Self {
        Captured { count: 0, has_num: false, num: 0, is_str: false, len: 0, buf: [0; CAP] }
    }
    pub fn eq_bytes(&self, want: &[u8]) -> bool {
        if !self.is_str || self.len != want.len() || self.len > CAP {
            return false;
        }
        let mut i = 0;
        while i < want.len() {
            if self.buf[i] != want[i] {
                return false;
            }
            i += 1;
        }
        true
    }
}

pub struct Rec {
    pub dup: Cell<bool>,
    pub nonfinite: Cell<bool>,
    pub ctrl: Cell<bool>,
    pub df: Cell<Captured>,
    pub icao24: Cell<Captured>,
    pub frame: Cell<Captured>,
    pub top_level_keys: Cell<u32>,
}
impl Rec {
    pub fn new() -> Self {
        Rec {
            dup: Cell::new(false),
            nonfinite: Cell::new(false),
            ctrl: Cell::new(false),
            df: Cell::new(Captured::new()),
            icao24: Cell::new(Captured::new()),
            frame: Cell::new(Captured::new()),
            top_level_keys: Cell::new(0),
        }
    }
    pub fn clean(&self) -> bool {
        !self.dup.get() && !self.nonfinite.get() && !self.ctrl.get()
    }
}

/// run the real Serialize impl of `v` into a fresh recorder
pub fn record<T: Serialize + ?Sized>(v: &T) -> (Result<(), E>, Rec) {
    let rec = Rec::new();
    let r = v.serialize(Ser { rec: &rec, depth: 0, role: Role::Plain });
    (r, rec)
}

/// minimal capture of a value that serialises as ONE string (no object bookkeeping, no loops
/// beyond copying the string): used with the real formatter in `hex6_real_format`
pub fn capture_str<T: Serialize + ?Sized>(v: &T) -> Option<([u8; 48], usize)> {
    let mut buf = [0u8; KEYCAP];
    let mut len = 0usize;
    match v.serialize(KeySer { out: &mut buf, len: &mut len }) {
        Ok(()) => Some((buf, len)),
        Err(_) => None,
    }
}

#[derive(Clone, Copy, PartialEq)]
enum Role {
    Plain,
    Df,
    Icao24,
    Frame,
}

fn bytes_eq(a: &[u8], b: &[u8]) -> bool {
    if a.len() != b.len() {
        return false;
    }
    let mut i = 0;
    while i < a.len() {
        if a[i] != b[i] {
            return false;
        }
        i += 1;
    }
    true
}

fn fnv(b: &[u8]) -> u64 {
    let mut h: u64 = 0xcbf29ce484222325;
    let mut i = 0;
    while i < b.len() {
        h ^= b[i] as u64;
        h = h.wrapping_mul(0x100000001b3);
        i += 1;
    }
    h
}

#[derive(Clone, Copy)]
pub struct Ser<'a> {
    rec: &'a Rec,
    depth: u8,
    role: Role,
}

impl<'a> Ser<'a> {
    fn leaf_str(&self, v: &str) {
        let b = v.as_bytes();
        let mut i = 0;
        while i < b.len() {
            if b[i] < 0x20 {
                self.rec.ctrl.set(true);
            }
            i += 1;
        }
        let cell = match self.role {
            Role::Df => &self.rec.df,
            Role::Icao24 => &self.rec.icao24,
            Role::Frame => &self.rec.frame,
            Role::Plain => return,
        };
        let mut c = cell.get();
        c.count = c.count.saturating_add(1);
        c.is_str = true;
        c.len = b.len();
        let mut i = 0;
        while i < b.len() && i < CAP {
            c.buf[i] = b[i];
            i += 1;
        }
        cell.set(c);
    }
    fn leaf_other(&self) {
        let cell = match self.role {
            Role::Df => &self.rec.df,
            Role::Icao24 => &self.rec.icao24,
            Role::Frame => &self.rec.frame,
            Role::Plain => return,
        };
        let mut c = cell.get();
        c.count = c.count.saturating_add(1);
        c.is_str = false;
        cell.set(c);
    }
    fn obj(&self) -> Obj<'a> {
        self.leaf_other();
        Obj { rec: self.rec, depth: self.depth, keys: [0; MAXK], n: 0, pending: Role::Plain }
    }
    fn arr(&self) -> Arr<'a> {
        self.leaf_other();
        Arr { rec: self.rec, depth: self.depth }
    }
}

const MAXK: usize = 64;
/// one JSON object under construction
pub struct Obj<'a> {
    rec: &'a Rec,
    depth: u8,
    keys: [u64; MAXK],
    n: usize,
    pending: Role,
}
impl<'a> Obj<'a> {
    fn key(&mut self, k: &str) {
        self.key_bytes(k.as_bytes())
    }
    fn key_bytes(&mut self, k: &[u8]) {
        let h = fnv(k);
        // fixed trip count (the number of keys seen so far may depend on symbolic data)
        let mut i = 0;
        while i < MAXK {
            if i < self.n && self.keys[i] == h {
                self.rec.dup.set(true);
            }
            i += 1;
        }
        if self.n < MAXK {
            self.keys[self.n] = h;
            self.n += 1;
        } else {
            // more keys than the recorder can track: report as a duplicate so that it cannot pass silently
            self.rec.dup.set(true);
        }
        self.pending = Role::Plain;
        if self.depth == 0 {
            self.rec.top_level_keys.set(self.rec.top_level_keys.get() + 1);
            if bytes_eq(k, b"df") {
                self.pending = Role::Df;
            } else if bytes_eq(k, b"icao24") {
                self.pending = Role::Icao24;
            } else if bytes_eq(k, b"frame") {
                self.pending = Role::Frame;
            }
        }
    }
    fn value<T: ?Sized + Serialize>(&mut self, v: &T) -> Result<(), E> {
        let role = self.pending;
        self.pending = Role::Plain;
        if role == Role::Icao24 {
            let tn = core::any::type_name::<T>().as_bytes();
            if bytes_eq(tn, b"rs1090::decode::ICAO") || bytes_eq(tn, b"rs1090::decode::IcaoParity") {
                let x = unsafe { *(v as *const T as *const u32) };
                let mut c = self.rec.icao24.get();
                c.has_num = true;
                c.num = x;
                self.rec.icao24.set(c);
            }
        }
        v.serialize(Ser { rec: self.rec, depth: self.depth + 1, role })
    }
}
pub struct Arr<'a> {
    rec: &'a Rec,
    depth: u8,
}
impl<'a> Arr<'a> {
    fn elem<T: ?Sized + Serialize>(&mut self, v: &T) -> Result<(), E> {
        v.serialize(Ser { rec: self.rec, depth: self.depth + 1, role: Role::Plain })
    }
}

/// captures a map key (serde_json requires keys to be strings / numbers / unit variants)
const KEYCAP: usize = 48;
struct KeySer<'b> {
    out: &'b mut [u8; KEYCAP],
    len: &'b mut usize,
}
macro_rules! key_unsupported {
    ($($f:ident($($a:ident: $t:ty),*) -> $r:ty;)*) => { $(fn $f(self, $($a: $t),*) -> Result<$r, E> { Err(E) })* };
}
impl<'b> ser::Serializer for KeySer<'b> {
    type Ok = ();
    type Error = E;
    type SerializeSeq = ser::Impossible<(), E>;
    type SerializeTuple = ser::Impossible<(), E>;
    type SerializeTupleStruct = ser::Impossible<(), E>;
    type SerializeTupleVariant = ser::Impossible<(), E>;
    type SerializeMap = ser::Impossible<(), E>;
    type SerializeStruct = ser::Impossible<(), E>;
    type SerializeStructVariant = ser::Impossible<(), E>;
    fn serialize_str(self, v: &str) -> Result<(), E> {
        let b = v.as_bytes();
        *self.len = b.len();
        let mut i = 0;
        while i < b.len() && i < KEYCAP {
            self.out[i] = b[i];
            i += 1;
        }
        Ok(())
    }
    fn serialize_unit_variant(self, _n: &'static str, _i: u32, v: &'static str) -> Result<(), E> {
        self.serialize_str(v)
    }
    fn serialize_newtype_struct<T: ?Sized + Serialize>(self, _n: &'static str, v: &T) -> Result<(), E> {
        v.serialize(self)
    }
    key_unsupported! {
        serialize_bool(_v: bool) -> (); serialize_i8(_v: i8) -> (); serialize_i16(_v: i16) -> (); serialize_i32(_v: i32) -> ();
        serialize_i64(_v: i64) -> (); serialize_u8(_v: u8) -> (); serialize_u16(_v: u16) -> (); serialize_u32(_v: u32) -> ();
        serialize_u64(_v: u64) -> (); serialize_f32(_v: f32) -> (); serialize_f64(_v: f64) -> (); serialize_char(_v: char) -> ();
        serialize_bytes(_v: &[u8]) -> (); serialize_none() -> (); serialize_unit() -> (); serialize_unit_struct(_n: &'static str) -> ();
        serialize_seq(_l: Option<usize>) -> ser::Impossible<(), E>; serialize_tuple(_l: usize) -> ser::Impossible<(), E>;
        serialize_tuple_struct(_n: &'static str, _l: usize) -> ser::Impossible<(), E>;
        serialize_tuple_variant(_n: &'static str, _i: u32, _v: &'static str, _l: usize) -> ser::Impossible<(), E>;
        serialize_map(_l: Option<usize>) -> ser::Impossible<(), E>;
        serialize_struct(_n: &'static str, _l: usize) -> ser::Impossible<(), E>;
        serialize_struct_variant(_n: &'static str, _i: u32, _v: &'static str, _l: usize) -> ser::Impossible<(), E>;
    }
    fn serialize_some<T: ?Sized + Serialize>(self, _v: &T) -> Result<(), E> {
        Err(E)
    }
    fn serialize_newtype_variant<T: ?Sized + Serialize>(self, _n: &'static str, _i: u32, _v: &'static str, _x: &T) -> Result<(), E> {
        Err(E)
    }
}

macro_rules! num_leaf { ($($f:ident $t:ty),*) => { $(fn $f(self, _v: $t) -> Result<(), E> { self.leaf_other(); Ok(()) })* } }

impl<'a> ser::Serializer for Ser<'a> {
    type Ok = ();
    type Error = E;
    type SerializeSeq = Arr<'a>;
    type SerializeTuple = Arr<'a>;
    type SerializeTupleStruct = Arr<'a>;
    type SerializeTupleVariant = Arr<'a>;
    type SerializeMap = Obj<'a>;
    type SerializeStruct = Obj<'a>;
    type SerializeStructVariant = Obj<'a>;
    num_leaf!(serialize_bool bool, serialize_i8 i8, serialize_i16 i16, serialize_i32 i32, serialize_i64 i64,
              serialize_u8 u8, serialize_u16 u16, serialize_u32 u32, serialize_u64 u64, serialize_char char);
    fn serialize_f32(self, v: f32) -> Result<(), E> {
        if !v.is_finite() {
            self.rec.nonfinite.set(true);
        }
        self.leaf_other();
        Ok(())
    }
    fn serialize_f64(self, v: f64) -> Result<(), E> {
        if !v.is_finite() {
            self.rec.nonfinite.set(true);
        }
        self.leaf_other();
        Ok(())
    }
    fn serialize_str(self, v: &str) -> Result<(), E> {
        self.leaf_str(v);
        Ok(())
    }
    fn serialize_bytes(self, _v: &[u8]) -> Result<(), E> {
        self.leaf_other();
        Ok(())
    }
    fn serialize_none(self) -> Result<(), E> {
        self.leaf_other();
        Ok(())
    }
    fn serialize_some<T: ?Sized + Serialize>(self, v: &T) -> Result<(), E> {
        v.serialize(self)
    }
    fn serialize_unit(self) -> Result<(), E> {
        self.leaf_other();
        Ok(())
    }
    fn serialize_unit_struct(self, _n: &'static str) -> Result<(), E> {
        self.leaf_other();
        Ok(())
    }
    fn serialize_unit_variant(self, _n: &'static str, _i: u32, v: &'static str) -> Result<(), E> {
        self.leaf_str(v);
        Ok(())
    }
    fn serialize_newtype_struct<T: ?Sized + Serialize>(self, _n: &'static str, v: &T) -> Result<(), E> {
        v.serialize(self)
    }
    fn serialize_newtype_variant<T: ?Sized + Serialize>(self, _n: &'static str, _i: u32, variant: &'static str, v: &T) -> Result<(), E> {
        // {"Variant": value}
        let mut o = self.obj();
        o.key(variant);
        o.value(v)
    }
    fn serialize_seq(self, _l: Option<usize>) -> Result<Arr<'a>, E> {
        Ok(self.arr())
    }
    fn serialize_tuple(self, _l: usize) -> Result<Arr<'a>, E> {
        Ok(self.arr())
    }
    fn serialize_tuple_struct(self, _n: &'static str, _l: usize) -> Result<Arr<'a>, E> {
        Ok(self.arr())
    }
    fn serialize_tuple_variant(self, _n: &'static str, _i: u32, _v: &'static str, _l: usize) -> Result<Arr<'a>, E> {
        Ok(self.arr())
    }
    fn serialize_map(self, _l: Option<usize>) -> Result<Obj<'a>, E> {
        Ok(self.obj())
    }
    fn serialize_struct(self, _n: &'static str, _l: usize) -> Result<Obj<'a>, E> {
        Ok(self.obj())
    }
    fn serialize_struct_variant(self, _n: &'static str, _i: u32, _v: &'static str, _l: usize) -> Result<Obj<'a>, E> {
        // {"Variant": {fields}}: the fields live one level below
        let mut o = self.obj();
        o.depth += 1;
        Ok(o)
    }
}

impl<'a> ser::SerializeSeq for Arr<'a> {
    type Ok = ();
    type Error = E;
    fn serialize_element<T: ?Sized + Serialize>(&mut self, v: &T) -> Result<(), E> {
        self.elem(v)
    }
    fn end(self) -> Result<(), E> {
        Ok(())
    }
}
impl<'a> ser::SerializeTuple for Arr<'a> {
    type Ok = ();
    type Error = E;
    fn serialize_element<T: ?Sized + Serialize>(&mut self, v: &T) -> Result<(), E> {
        self.elem(v)
    }
    fn end(self) -> Result<(), E> {
        Ok(())
    }
}
impl<'a> ser::SerializeTupleStruct for Arr<'a> {
    type Ok = ();
    type Error = E;
    fn serialize_field<T: ?Sized + Serialize>(&mut self, v: &T) -> Result<(), E> {
        self.elem(v)
    }
    fn end(self) -> Result<(), E> {
        Ok(())
    }
}
impl<'a> ser::SerializeTupleVariant for Arr<'a> {
    type Ok = ();
    type Error = E;
    fn serialize_field<T: ?Sized + Serialize>(&mut self, v: &T) -> Result<(), E> {
        self.elem(v)
    }
    fn end(self) -> Result<(), E> {
        Ok(())
    }
}
impl<'a> ser::SerializeMap for Obj<'a> {
    type Ok = ();
    type Error = E;
    fn serialize_key<T: ?Sized + Serialize>(&mut self, k: &T) -> Result<(), E> {
        let mut buf = [0u8; KEYCAP];
        let mut len = 0usize;
        k.serialize(KeySer { out: &mut buf, len: &mut len })?;
        if len > KEYCAP {
            // longer than the recorder can compare: fail safe
            self.rec.dup.set(true);
            len = KEYCAP;
        }
        self.key_bytes(&buf[..len]);
        Ok(())
    }
    fn serialize_value<T: ?Sized + Serialize>(&mut self, v: &T) -> Result<(), E> {
        self.value(v)
    }
    fn end(self) -> Result<(), E> {
        Ok(())
    }
}
impl<'a> ser::SerializeStruct for Obj<'a> {
    type Ok = ();
    type Error = E;
    fn serialize_field<T: ?Sized + Serialize>(&mut self, k: &'static str, v: &T) -> Result<(), E> {
        self.key(k);
        self.value(v)
    }
    fn end(self) -> Result<(), E> {
        Ok(())
    }
}
impl<'a> ser::SerializeStructVariant for Obj<'a> {
    type Ok = ();
    type Error = E;
    fn serialize_field<T: ?Sized + Serialize>(&mut self, k: &'static str, v: &T) -> Result<(), E> {
        self.key(k);
        self.value(v)
    }
    fn end(self) -> Result<(), E> {
        Ok(())
    }
}

//! C13 — altitude and identity codes: decode_id13, gray2alt, AC13Field::read, decode_ac12.
use crate::refs::{gillham_ref, Pulses};
use crate::src::Src;
use rs1090::decode::bds::bds05::AirbornePosition;
use rs1090::decode::{decode_id13, gray2alt, AC13Field};
use rs1090::prelude::*;

/// Annex 10 13-bit AC field (message bits 20..32): C1 A1 C2 A2 C4 A4 M B1 Q B2 D2 B4 D4,
/// bit 12 (MSB) = C1 ... bit 0 = D4. Expected altitude in ft, None = unavailable.
/// Metric (M = 1) codes are outside the property.
fn ac13_ref(code: u16) -> Option<i32> {
    let bit = |i: u16| (code >> i) & 1 == 1;
    let q = bit(4);
    if q {
        // 11-bit N from the remaining bits, MSB first: C1 A1 C2 A2 C4 A4 B1 B2 D2 B4 D4
        let n = ((code >> 7) & 0x3f) << 5 | ((code >> 5) & 1) << 4 | (code & 0xf);
        Some(25 * n as i32 - 1000)
    } else {
        let p = Pulses {
            c1: bit(12), a1: bit(11), c2: bit(10), a2: bit(9), c4: bit(8), a4: bit(7),
            b1: bit(5), d1: false, b2: bit(3), d2: bit(2), b4: bit(1), d4: bit(0),
        };
        gillham_ref(p).map(|n| 100 * n)
    }
}

/// what a u16 "altitude in ft, 0 = unavailable" report must be for a reference value
fn report_u16(r: Option<i32>) -> u16 {
    match r {
        Some(v) if v > 0 && v <= 65535 => v as u16,
        _ => 0,
    }
}

fn read_ac13(code: u16) -> u16 {
    // 13-bit field right-aligned in two bytes, read from bit offset 3
    let a = [(code >> 8) as u8, code as u8];
    let (_, f) = <AC13Field as DekuContainerRead>::from_bytes((&a[..], 3)).unwrap();
    f.0
}

fn read_ac12(c12: u16) -> Option<u16> {
    // BDS 0,5 payload: TC(5) SS(2) SAF(1) ALT(12) T F LAT(17) LON(17); tc = 11
    let mut b = [0u8; 7];
    b[0] = 11 << 3;
    b[1] = (c12 >> 4) as u8;
    b[2] = ((c12 & 0xf) << 4) as u8;
    AirbornePosition::try_from(&b[..]).unwrap().alt
}

harness! {
    #[kani::unwind(17)]
    #[kani::stub(alloc::fmt::format, crate::stubs::fmt_stub)]
    /// all 2^13 AC codes with M = 0: reported altitude == standard's value, or 0 (unavailable)
    /// when illegal / not representable
    fn ac13_oracle(s) {
        let code = s.u16();
        vassume!(code < 8192 && code & 0x40 == 0);
        let got = read_ac13(code);
        let want = report_u16(ac13_ref(code));
        vcover!(code & 0x10 == 0 && want > 50_000);
        vcover!(code & 0x10 != 0 && want > 0);
        vassert!(got == want, "AC13 altitude equals the standard's value or unavailable");
    }
}

harness! {
    #[kani::unwind(17)]
    #[kani::stub(alloc::fmt::format, crate::stubs::fmt_stub)]
    /// all 2^12 ME altitude codes (BDS 0,5) vs the standard
    fn ac12_oracle(s) {
        let c12 = s.u16();
        vassume!(c12 < 4096);
        let got = read_ac12(c12);
        // re-insert M = 0 between A4 and B1 to get the 13-bit layout
        let code13 = ((c12 & 0x0fc0) << 1) | (c12 & 0x003f);
        let want = ac13_ref(code13);
        vcover!(got.is_some());
        vcover!(got.is_none());
        match got {
            Some(x) => vassert!(want == Some(x as i32), "AC12 altitude equals the standard's value"),
            None => vassert!(match want { None => true, Some(v) => v <= 0 || v > 65535 },
                             "AC12 unavailable only when illegal / not representable"),
        }
    }
}

harness! {
    #[kani::unwind(17)]
    #[kani::stub(alloc::fmt::format, crate::stubs::fmt_stub)]
    /// both encodings agree on the same code (M bit removed)
    fn ac13_ac12_agree(s) {
        let code = s.u16();
        vassume!(code < 8192 && code & 0x40 == 0);
        let alt13 = read_ac13(code);
        let c12 = ((code & 0x1f80) >> 1) | (code & 0x3f);
        vcover!(alt13 == 0);
        vcover!(alt13 > 60_000);
        match read_ac12(c12) {
            Some(x) => vassert!(alt13 == x, "AC13 and AC12 agree"),
            None => vassert!(alt13 == 0, "AC13 unavailable when AC12 is"),
        }
    }
}

/// pulses of the "hex Gillham" word that decode_id13 produces: nibbles A B C D,
/// 0x1000 A1 0x2000 A2 0x4000 A4 / 0x0100 B1 .. / 0x0010 C1 .. / 0x0001 D1 0x0002 D2 0x0004 D4
fn pulses_of_hex(g: u16) -> Pulses {
    let b = |m: u16| g & m != 0;
    Pulses {
        a1: b(0x1000), a2: b(0x2000), a4: b(0x4000),
        b1: b(0x0100), b2: b(0x0200), b4: b(0x0400),
        c1: b(0x0010), c2: b(0x0020), c4: b(0x0040),
        d1: b(0x0001), d2: b(0x0002), d4: b(0x0004),
    }
}

harness! {
    /// gray2alt on all 2^16 arguments: total; Ok(n) iff the word is a legal Gillham code with
    /// non-negative altitude, and n is the standard's step count
    fn gray2alt_oracle(s) {
        let g = s.u16();
        let r = gray2alt(g);
        let legal_bits = g & 0x8888 == 0;
        let want = if legal_bits { gillham_ref(pulses_of_hex(g)) } else { None };
        vcover!(r.is_ok());
        vcover!(r.is_err() && legal_bits);
        match r {
            Ok(n) => vassert!(want == Some(n) && n >= 0, "gray2alt value equals the Gillham reference"),
            Err(_) => vassert!(match want { None => true, Some(n) => n < 0 }, "gray2alt rejects only illegal or negative codes"),
        }
    }
}

harness! {
    /// one-to-one: two different words never give the same step
    fn gray2alt_injective(s) {
        let a = s.u16();
        let b = s.u16();
        vassume!(a != b);
        if let (Ok(x), Ok(y)) = (gray2alt(a), gray2alt(b)) {
            vcover!(true);
            vassert!(x != y, "gray2alt is injective on valid codes");
        }
    }
}

harness! {
    /// Gray property + consecutive range: neighbouring steps differ in exactly one bit, and
    /// every step 0..=1266 (126 600 ft, the top of the code) has a code
    fn gray2alt_gray_sequence(s) {
        let a = s.u16();
        let b = s.u16();
        if let (Ok(x), Ok(y)) = (gray2alt(a), gray2alt(b)) {
            if y == x + 1 {
                vcover!(true);
                vassert!((a ^ b).count_ones() == 1, "neighbouring steps differ in exactly one bit");
            }
        }
    }
}

/// independent Gillham *encoder*: step n (altitude 100 n ft, n >= -12) -> hex word
fn gillham_enc(n: i32) -> u16 {
    let m = (n + 13) as u32;          // 1-based position in the sequence
    let mut n500 = m / 5;
    let mut n100 = m % 5;
    if n100 == 0 { n100 = 5; n500 -= 1; }
    if n500 & 1 == 1 { n100 = 6 - n100; }
    let g500 = n500 ^ (n500 >> 1);
    let c = match n100 { 1 => 0b001u16, 2 => 0b011, 3 => 0b010, 4 => 0b110, _ => 0b100 };
    let mut w = 0u16;
    // g500 bits MSB first: D2 D4 A1 A2 A4 B1 B2 B4
    if g500 & 0x80 != 0 { w |= 0x0002; }
    if g500 & 0x40 != 0 { w |= 0x0004; }
    if g500 & 0x20 != 0 { w |= 0x1000; }
    if g500 & 0x10 != 0 { w |= 0x2000; }
    if g500 & 0x08 != 0 { w |= 0x4000; }
    if g500 & 0x04 != 0 { w |= 0x0100; }
    if g500 & 0x02 != 0 { w |= 0x0200; }
    if g500 & 0x01 != 0 { w |= 0x0400; }
    if c & 4 != 0 { w |= 0x0010; }
    if c & 2 != 0 { w |= 0x0020; }
    if c & 1 != 0 { w |= 0x0040; }
    w
}

harness! {
    /// onto: every step 0..=1266 is produced (decode(encode(n)) == n)
    fn gray2alt_onto(s) {
        let n = s.u32();
        vassume!(n <= 1266);
        let w = gillham_enc(n as i32);
        vcover!(n == 1266);
        vassert!(gray2alt(w) == Ok(n as i32), "gray2alt inverts the Gillham encoder");
    }
}

harness! {
    /// decode_id13 is a pure bit permutation onto four octal digits
    fn id13_permutation(s) {
        let a = s.u16();
        let b = s.u16();
        vassume!(a < 8192 && b < 8192);
        let i = s.below(13) as usize;
        let fa = decode_id13(a);
        let fb = decode_id13(b);
        vcover!(fa == 0x7777);
        vassert!(decode_id13(a ^ b) == fa ^ fb, "decode_id13 is linear over GF(2)");
        vassert!(fa.count_ones() == (a & !0x40).count_ones(), "decode_id13 preserves the pulses (X/M bit dropped)");
        vassert!(fa & 0x8888 == 0, "four octal digits");
        // documented positions: C1 A1 C2 A2 C4 A4 X B1 D1 B2 D2 B4 D4 (MSB first)
        const WANT: [u16; 13] = [0x0004, 0x0400, 0x0002, 0x0200, 0x0001, 0x0100, 0, 0x4000, 0x0040, 0x2000, 0x0020, 0x1000, 0x0010];
        vassert!(decode_id13(1u16 << i) == WANT[i], "unit pulses map to their digit positions");
    }
}

harness! {
    #[kani::unwind(17)]
    #[kani::stub(alloc::fmt::format, crate::stubs::fmt_stub)]
    /// squawk through the reader: every 13-bit identity field gives four octal digits, each
    /// digit assembled from its own pulses (independent extraction)
    fn squawk_oracle(s) {
        let code = s.u16();
        vassume!(code < 8192);
        let a = [(code >> 8) as u8, code as u8];
        let (_, f) = <rs1090::decode::IdentityCode as DekuContainerRead>::from_bytes((&a[..], 3)).unwrap();
        let bit = |i: u16| ((code >> i) & 1) as u16;
        let da = bit(11) | bit(9) << 1 | bit(7) << 2;
        let db = bit(5) | bit(3) << 1 | bit(1) << 2;
        let dc = bit(12) | bit(10) << 1 | bit(8) << 2;
        let dd = bit(4) | bit(2) << 1 | bit(0) << 2;
        vcover!(f.0 == 0x7700);
        vassert!(f.0 == (da << 12 | db << 8 | dc << 4 | dd), "squawk digits A B C D");
    }
}

registry!(ac13_oracle, ac12_oracle, ac13_ac12_agree, gray2alt_oracle, gray2alt_injective,
          gray2alt_gray_sequence, gray2alt_onto, id13_permutation, squawk_oracle);

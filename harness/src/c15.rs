//! C15 — FLARM decoding (rs1090::decode::flarm): total, finite, track in [0, 360), and it
//! inverts an independent packer / XXTEA encryptor.
use crate::src::Src;
use rs1090::decode::flarm::{AircraftType, Flarm};

// ------------------------------------------------------------ independent reference (textbook XXTEA,
// Wheeler & Needham 1998, 6 rounds, n = 5; key schedule from the public FLARM v6 description)
const KEY1: [i64; 4] = [0xe43276df, 0xdca83759, 0x9802b8ac, 0x4675a56b];
const KEY1B: [i64; 4] = [0xfc78ea65, 0x804b90ea, 0xb76542cd, 0x329dfa32];
const DELTA: u32 = 0x9E3779B9;

fn obscure_ref(key: i64, seed: u64) -> i64 {
    let m1 = seed.wrapping_mul((key ^ (key >> 16)) as u64) as u32;
    let m2 = seed.wrapping_mul((m1 ^ (m1 >> 16)) as u64) as u32;
    (m2 ^ (m2 >> 16)) as i64
}
fn key_ref(time: u32, address24: u32) -> [u32; 4] {
    let time = time as i64;
    let address = ((address24 << 8) & 0xffffff) as i64;
    let table = if (time >> 23) & 1 != 0 { &KEY1B } else { &KEY1 };
    let mut k = [0u32; 4];
    let mut i = 0;
    while i < 4 {
        k[i] = (obscure_ref(table[i] ^ ((time >> 6) ^ address), 0x045D9F3B) ^ 0x87B562F4) as u32;
        i += 1;
    }
    k
}
#[inline(always)]
fn mx_ref(sum: u32, y: u32, z: u32, p: usize, e: usize, k: &[u32; 4]) -> u32 {
    (((z >> 5) ^ (y << 2)).wrapping_add((y >> 3) ^ (z << 4))) ^ ((sum ^ y).wrapping_add(k[(p & 3) ^ e] ^ z))
}
fn decrypt_ref(v: &mut [u32; 5], k: &[u32; 4]) {
    let n = 5usize;
    let mut sum: u32 = DELTA.wrapping_mul(6);
    let mut y = v[0];
    let mut r = 0;
    while r < 6 {
        let e = ((sum >> 2) & 3) as usize;
        let mut p = n - 1;
        while p > 0 {
            let z = v[p - 1];
            v[p] = v[p].wrapping_sub(mx_ref(sum, y, z, p, e, k));
            y = v[p];
            p -= 1;
        }
        let z = v[n - 1];
        v[0] = v[0].wrapping_sub(mx_ref(sum, y, z, 0, e, k));
        y = v[0];
        sum = sum.wrapping_sub(DELTA);
        r += 1;
    }
}
fn encrypt_ref(v: &mut [u32; 5], k: &[u32; 4]) {
    let n = 5usize;
    let mut sum: u32 = 0;
    let mut z = v[n - 1];
    let mut r = 0;
    while r < 6 {
        sum = sum.wrapping_add(DELTA);
        let e = ((sum >> 2) & 3) as usize;
        let mut p = 0;
        while p < n - 1 {
            let y = v[p + 1];
            v[p] = v[p].wrapping_add(mx_ref(sum, y, z, p, e, k));
            z = v[p];
            p += 1;
        }
        let y = v[0];
        v[n - 1] = v[n - 1].wrapping_add(mx_ref(sum, y, z, n - 1, e, k));
        z = v[n - 1];
        r += 1;
    }
}

fn packet(addr: u32, magic: u8, words: &[u32; 5], tail: [u8; 2]) -> [u8; 26] {
    let mut m = [0u8; 26];
    m[0] = addr as u8;
    m[1] = (addr >> 8) as u8;
    m[2] = (addr >> 16) as u8;
    m[3] = magic;
    let mut i = 0;
    while i < 5 {
        let b = words[i].to_le_bytes();
        m[4 + 4 * i] = b[0];
        m[5 + 4 * i] = b[1];
        m[6 + 4 * i] = b[2];
        m[7 + 4 * i] = b[3];
        i += 1;
    }
    m[24] = tail[0];
    m[25] = tail[1];
    m
}

/// Under Kani the cipher is replaced by the identity (field harnesses only), so the packet
/// carries the plaintext words; natively the real cipher runs, so the packet carries the words
/// encrypted by the independent encryptor.
#[cfg(kani)]
fn btea_identity(_v: &mut [u32], _k: &[u32]) {}
fn cipher_words(plain: &[u32; 5], ts: u32, addr: u32) -> [u32; 5] {
    #[cfg(kani)]
    { let _ = (ts, addr); *plain }
    #[cfg(not(kani))]
    { let mut c = *plain; encrypt_ref(&mut c, &key_ref(ts, addr)); c }
}

fn address_of(f: &Flarm) -> u32 {
    // Address is a private newtype around u32: read it by layout
    unsafe { *(&f.icao24 as *const _ as *const u32) }
}

fn actype_of(i: u32) -> AircraftType {
    match i {
        0 => AircraftType::Unknown, 1 => AircraftType::Glider, 2 => AircraftType::Towplane, 3 => AircraftType::Helicopter,
        4 => AircraftType::Parachute, 5 => AircraftType::DropPlane, 6 => AircraftType::Hangglider, 7 => AircraftType::Paraglider,
        8 => AircraftType::Aircraft, 9 => AircraftType::Jet, 10 => AircraftType::UFO, 11 => AircraftType::Balloon,
        12 => AircraftType::Airship, 13 => AircraftType::UAV, 14 => AircraftType::Reserved, _ => AircraftType::StaticObstacle,
    }
}

fn finite_and_track(f: &Flarm) {
    vassert!(f.latitude.is_finite() && f.longitude.is_finite(), "position finite");
    vassert!(f.groundspeed.is_finite() && f.groundspeed >= 0.0, "ground speed finite and non-negative");
    vassert!(f.vertical_speed.is_finite(), "vertical speed finite");
    vassert!(f.reference_lat.to_bits() == f.reference_lat.to_bits(), "reference echoed");
    vassert!(f.track.is_finite(), "track finite");
    vassert!(f.track >= 0.0 && f.track < 360.0, "track in [0, 360)");
}

harness! {
    #[kani::unwind(30)]
    #[kani::stub(alloc::fmt::format, crate::stubs::fmt_stub)]
    #[kani::stub(libm::atan2, crate::stubs::k::atan2_stub)]
#[kani::stub(f64::rem_euclid, crate::stubs::k::rem_euclid_stub)]
    /// REAL cipher: any 26-byte packet, any timestamp, any reference bit patterns (NaN / inf
    /// included): a record or an error, no panic; numbers of a record finite, track in [0, 360)
    fn total_len26(s) {
        let buf: [u8; 26] = s.bytes();
        let ts = s.u32();
        let reference = [s.f64(), s.f64()];
        let r = Flarm::from_record(ts, &reference, &buf[..]);
        vcover!(r.is_ok());
        vcover!(r.is_err());
        if let Ok(f) = &r { finite_and_track(f); }
        core::mem::forget(r);
    }
}

macro_rules! total_len {
    ($name:ident, $len:expr) => {
        harness! {
            #[kani::unwind(46)]
            #[kani::stub(alloc::fmt::format, crate::stubs::fmt_stub)]
            #[kani::stub(libm::atan2, crate::stubs::k::atan2_stub)]
#[kani::stub(f64::rem_euclid, crate::stubs::k::rem_euclid_stub)]
            #[kani::stub(rs1090::decode::flarm::btea, btea_identity)]
            /// packets of one concrete length (contents, timestamp, reference symbolic; cipher
            /// replaced by the identity — its own totality is total_len26): no panic; shorter than
            /// 26 bytes is an error; a record has finite numbers and track in [0, 360)
            fn $name(s) {
                let buf: [u8; 40] = s.bytes();
                let ts = s.u32();
                let reference = [s.f64(), s.f64()];
                let r = Flarm::from_record(ts, &reference, &buf[..$len]);
                vcover!(r.is_err());
                if $len < 26 { vassert!(r.is_err(), "truncated packet is an error"); }
                if let Ok(f) = &r { finite_and_track(f); }
                core::mem::forget(r);
            }
        }
    };
}
total_len!(total_len00, 0);
total_len!(total_len03, 3);
total_len!(total_len04, 4);
total_len!(total_len19, 19);
total_len!(total_len25, 25);
// the accepted length with the cipher replaced by the identity: EVERY decrypted block reaches the field / position / track
// code (the identity maps the set of all blocks onto itself); the real cipher on every packet is total_len26 (thorough)
total_len!(total_len26_id, 26);
total_len!(total_len27, 27);
total_len!(total_len40, 40);

harness! {
    #[kani::unwind(30)]
    #[kani::stub(alloc::fmt::format, crate::stubs::fmt_stub)]
    #[kani::stub(libm::atan2, crate::stubs::k::atan2_stub)]
#[kani::stub(f64::rem_euclid, crate::stubs::k::rem_euclid_stub)]
    #[kani::stub(rs1090::decode::flarm::btea, btea_identity)]
    /// discrete fields for EVERY plaintext block, address, timestamp and address kind (reference
    /// fixed): address, kind, type, flags, GPS status, altitude equal the packer's bit slices
    /// (under Kani the cipher is the identity; natively the block is encrypted by the independent
    /// XXTEA encryptor and decrypted by the real code)
    fn fields_discrete(s) {
        let words: [u32; 5] = [s.u32(), s.u32(), s.u32(), s.u32(), s.u32()];
        let ts = s.u32();
        let addr = s.u32();
        let icao_kind = s.bool();
        let tail: [u8; 2] = s.bytes();
        vassume!(addr < (1 << 24));
        let magic = if icao_kind { 0x10 } else { 0x20 };
        let msg = packet(addr, magic, &cipher_words(&words, ts, addr), tail);
        let r = Flarm::from_record(ts, &[45.0, 5.0], &msg[..]);
        vcover!(r.is_ok());
        vassert!(r.is_ok(), "well-formed packet decodes");
        if let Ok(f) = &r {
            vassert!(f.decoded.len() == 5 && f.decoded[0] == words[0] && f.decoded[1] == words[1] && f.decoded[2] == words[2]
                     && f.decoded[3] == words[3] && f.decoded[4] == words[4], "plaintext block recovered");
            vassert!(address_of(f) == addr, "device address");
            vassert!(f.is_icao24 == icao_kind, "address kind flag");
            vassert!(f.timestamp == ts, "timestamp echoed");
            vassert!(f.actype == actype_of(words[0] >> 28), "aircraft type");
            vassert!(f.stealth == ((words[0] >> 13) & 1 == 1) && f.no_track == ((words[0] >> 14) & 1 == 1), "stealth / no-track flags");
            vassert!(f.gps == (words[0] >> 16) & 0xfff, "GPS status");
            vassert!(f.geoaltitude == (words[1] >> 19) & 0x1fff, "altitude (m)");
            finite_and_track(f);
        }
        core::mem::forget(r);
    }
}

harness! {
    #[kani::unwind(30)]
    #[kani::stub(alloc::fmt::format, crate::stubs::fmt_stub)]
    #[kani::stub(libm::atan2, crate::stubs::k::atan2_stub)]
#[kani::stub(f64::rem_euclid, crate::stubs::k::rem_euclid_stub)]
    #[kani::stub(rs1090::decode::flarm::btea, btea_identity)]
    /// discrete fields for EVERY plaintext block, address, timestamp and address kind (reference
    /// fixed): address, kind, type, flags, GPS status, altitude equal the packer's bit slices
    /// (under Kani the cipher is the identity; natively the block is encrypted by the independent
    /// XXTEA encryptor and decrypted by the real code)
    fn fields_discrete_q(s) {
        // quick-tier variant: the bits that only feed the floating-point position / velocity arithmetic are concrete
        let words: [u32; 5] = [s.u32(), (s.u32() & 0xfff8_0000) | 0x0001_2345, 0x0004_5678, 0x0102_0304, 0x0506_0708];
        let ts = s.u32();
        let addr = s.u32();
        let icao_kind = s.bool();
        let tail: [u8; 2] = s.bytes();
        vassume!(addr < (1 << 24));
        let magic = if icao_kind { 0x10 } else { 0x20 };
        let msg = packet(addr, magic, &cipher_words(&words, ts, addr), tail);
        let r = Flarm::from_record(ts, &[45.0, 5.0], &msg[..]);
        vcover!(r.is_ok());
        vassert!(r.is_ok(), "well-formed packet decodes");
        if let Ok(f) = &r {
            vassert!(f.decoded.len() == 5 && f.decoded[0] == words[0] && f.decoded[1] == words[1] && f.decoded[2] == words[2]
                     && f.decoded[3] == words[3] && f.decoded[4] == words[4], "plaintext block recovered");
            vassert!(address_of(f) == addr, "device address");
            vassert!(f.is_icao24 == icao_kind, "address kind flag");
            vassert!(f.timestamp == ts, "timestamp echoed");
            vassert!(f.actype == actype_of(words[0] >> 28), "aircraft type");
            vassert!(f.stealth == ((words[0] >> 13) & 1 == 1) && f.no_track == ((words[0] >> 14) & 1 == 1), "stealth / no-track flags");
            vassert!(f.gps == (words[0] >> 16) & 0xfff, "GPS status");
            vassert!(f.geoaltitude == (words[1] >> 19) & 0x1fff, "altitude (m)");
            finite_and_track(f);
        }
        core::mem::forget(r);
    }
}


// the key-schedule harnesses name the private `obscure` in a stub attribute: a change of its signature makes the Kani build
// fail, so they live in their own cargo feature (c15obs) and are built separately - the other C15 harnesses keep working
#[cfg(feature = "c15obs")]
include!("c15_obs.rs");

// ---- the accepted length cut by concern (quick tier: the quick command has 900 s for build + run, and the harnesses that
// take every block AND every reference at once need 8-13 min): each part makes the bits that feed one group of fields
// symbolic and keeps the others concrete.  Cipher = identity under Kani (every block reaches the field code), natively the
// real cipher runs on the independently encrypted block.
macro_rules! part26 {
    ($name:ident, [$m0:expr, $m1:expr, $m2:expr, $m3:expr, $m4:expr], $symref:expr) => {
        harness! {
            #[kani::unwind(30)]
            #[kani::stub(alloc::fmt::format, crate::stubs::fmt_stub)]
            #[kani::stub(libm::atan2, crate::stubs::k::atan2_stub)]
#[kani::stub(f64::rem_euclid, crate::stubs::k::rem_euclid_stub)]
            #[kani::stub(rs1090::decode::flarm::btea, btea_identity)]
            fn $name(s) {
                let c: [u32; 5] = [0x1234_5678, 0x0abc_def0, 0x4fed_cba9, 0x0765_4321, 0x0357_9bdf];
                let m: [u32; 5] = [$m0, $m1, $m2, $m3, $m4];
                let words: [u32; 5] = [(s.u32() & m[0]) | (c[0] & !m[0]), (s.u32() & m[1]) | (c[1] & !m[1]), (s.u32() & m[2]) | (c[2] & !m[2]),
                                       (s.u32() & m[3]) | (c[3] & !m[3]), (s.u32() & m[4]) | (c[4] & !m[4])];
                let ts = s.u32();
                let addr = s.u32();
                let r0 = s.f64();
                let r1 = s.f64();
                vassume!(addr < (1 << 24));
                let reference = if $symref { [r0, r1] } else { [45.0, 5.0] };
                let msg = packet(addr, 0x10, &cipher_words(&words, ts, addr), [0, 0]);
                let r = Flarm::from_record(ts, &reference, &msg[..]);
                vcover!(r.is_ok());
                vassert!(r.is_ok(), "well-formed packet decodes");
                if let Ok(f) = &r {
                    vassert!(f.decoded.len() == 5 && f.decoded[0] == words[0] && f.decoded[1] == words[1] && f.decoded[2] == words[2]
                             && f.decoded[3] == words[3] && f.decoded[4] == words[4], "plaintext block recovered");
                    vassert!(address_of(f) == addr, "device address");
                    vassert!(f.actype == actype_of(words[0] >> 28), "aircraft type");
                    vassert!(f.stealth == ((words[0] >> 13) & 1 == 1) && f.no_track == ((words[0] >> 14) & 1 == 1), "stealth / no-track flags");
                    vassert!(f.gps == (words[0] >> 16) & 0xfff, "GPS status");
                    vassert!(f.geoaltitude == (words[1] >> 19) & 0x1fff, "altitude (m)");
                    finite_and_track(f);
                }
                core::mem::forget(r);
                // native confirmation of a track-range counterexample: under Kani the two atan2 answers are arbitrary (contract
                // stub), so the tape's velocity bytes need not show the deviation with the real libm; re-run the same skeleton
                // (timestamp, address) over every pair of small velocity samples (-12..=12 in each of the four components)
                #[cfg(not(kani))]
                if m[3] == 0xffff_ffff && m[4] == 0xffff_ffff {
                    for a in -12i32..=12 { for b in -12i32..=12 { for c2 in -12i32..=12 { for d in -12i32..=12 {
                        let mut w = words;
                        w[2] = (w[2] & 0x3fff_ffff) | 0x4000_0000;
                        w[3] = (a as u8 as u32) | ((c2 as u8 as u32) << 8);
                        w[4] = (b as u8 as u32) | ((d as u8 as u32) << 8);
                        let msg = packet(addr, 0x10, &cipher_words(&w, ts, addr), [0, 0]);
                        if let Ok(f) = Flarm::from_record(ts, &reference, &msg[..]) { finite_and_track(&f); }
                    } } } }
                }
            }
        }
    };
}
// position words x ANY reference bit pattern (NaN / inf / huge included): no panic, finite coordinates
part26!(part26_position, [0, 0xffff_ffff, 0x3fff_ffff, 0, 0], true);
// velocity bytes, speed multiplier, vertical speed: track in [0, 360), finite speeds
part26!(part26_velocity, [0x0000_03ff, 0, 0xc000_0000, 0xffff_ffff, 0xffff_ffff], false);
// type, flags, GPS status, altitude
part26!(part26_discrete, [0xffff_fc00, 0xfff8_0000, 0, 0, 0], false);

/// |got * 1e7 - truth| <= 129 (one quantisation step of 128e-7 degrees plus rounding).  Written as a
/// disjunction whose first member is "got is bit-identical to the centre of the 128-unit bucket that
/// contains the truth, converted the way a fixed-point decoder converts it": on a decoder that returns
/// the bucket centre the solver proves that member by integer reasoning plus structural equality of the
/// two float expressions (seconds); the second member (the property's literal tolerance, two float
/// multiplications the SAT solver has to reason through: no answer in 30-40 min) remains the
/// specification, so a decoder that is right in another way is never reported.
fn position_ok(got: f64, truth: i32) -> bool {
    let centre = (((truth >> 7) << 7) + 0x40) as f64 * 1e-7;
    if got.to_bits() == centre.to_bits() { return true; }
    let d = got * 1e7 - truth as f64;
    d >= -129.0 && d <= 129.0
}

// ---- unit-level access to the PRIVATE position kernels: Kani resolves stub paths regardless of privacy, so
// a public dummy is "stubbed" BY the private function — calling the dummy then runs the real
// Flarm::decode_latitude / decode_longitude compiled from /repo.  (Natively the same value is obtained
// through from_record on a packet built by the independent packer / encryptor.)
pub fn lat_kernel(_decoded: u32, _reference: f64) -> Result<f64, rs1090::prelude::DekuError> { unreachable!() }
pub fn lon_kernel(_decoded: u32, _reference: f64) -> Result<f64, rs1090::prelude::DekuError> { unreachable!() }

macro_rules! position_unit {
    ($name:ident, $lon:expr, $reference:expr, $slice:expr) => {
        harness! {
            #[kani::unwind(8)]
            #[kani::stub(alloc::fmt::format, crate::stubs::fmt_stub)]
            #[kani::stub(libm::atan2, crate::stubs::k::atan2_stub)]
#[kani::stub(f64::rem_euclid, crate::stubs::k::rem_euclid_stub)]
            #[kani::stub(rs1090::decode::flarm::btea, btea_identity)]
            #[kani::stub(lat_kernel, rs1090::decode::flarm::Flarm::decode_latitude)]
            #[kani::stub(lon_kernel, rs1090::decode::flarm::Flarm::decode_longitude)]
            /// position kernel at ONE concrete reference, ONE slice of 2^16 offsets of the decodable window
            /// (the window of 2^19 / 2^20 offsets is cut into 8 / 16 slices because the SAT solver has to push
            /// every offset through the decoder's float multiplication: 28 s per 2^16, no answer in 30 min for
            /// the whole window at once), every value of the other bits of the word: the decoded coordinate is
            /// the centre of the true 128e-7 degree bucket (or within one step of the truth)
            fn $name(s) {
                let reference: f64 = $reference;
                let (mask, half): (u32, i32) = if $lon { (0xfffff, 0x80000) } else { (0x7ffff, 0x40000) };
                let round = ((reference * 1e7) as i32) >> 7;
                let lo = (s.u32() & 0xffff) as i32;
                let upper = s.u32() & !mask;
                let d = ((($slice as i32) << 16) | lo) - half;       // offset from the reference, in steps
                vassume!(d > -(half - 2) && d < half - 2);
                let t = round + d;                                     // true position in 128e-7 degree steps
                let w = ((t as u32) & mask) | upper;
                #[cfg(kani)]
                let got = if $lon { lon_kernel(w, reference) } else { lat_kernel(w, reference) };
                #[cfg(not(kani))]
                let got = {
                    let words: [u32; 5] = if $lon { [0, 0, w, 0, 0] } else { [0, w, 0, 0, 0] };
                    let msg = packet(0x123456, 0x10, &cipher_words(&words, 1_655_274_034, 0x123456), [0, 0]);
                    let rr = if $lon { [45.0, reference] } else { [reference, 5.0] };
                    Flarm::from_record(1_655_274_034, &rr, &msg[..]).map(|f| if $lon { f.longitude } else { f.latitude })
                };
                vcover!(got.is_ok());
                vassert!(got.is_ok(), "position kernel returns a value");
                if let Ok(g) = got {
                    let truth = (t << 7) + 0x40;
                    vassert!(position_ok(g, truth), "coordinate within one quantisation step of the true position");
                }
            }
        }
    };
}
position_unit!(pos_lat_a_00, false, 43.61924, 0);
position_unit!(pos_lat_a_01, false, 43.61924, 1);
position_unit!(pos_lat_a_02, false, 43.61924, 2);
position_unit!(pos_lat_a_03, false, 43.61924, 3);
position_unit!(pos_lat_a_04, false, 43.61924, 4);
position_unit!(pos_lat_a_05, false, 43.61924, 5);
position_unit!(pos_lat_a_06, false, 43.61924, 6);
position_unit!(pos_lat_a_07, false, 43.61924, 7);
position_unit!(pos_lon_a_00, true, 5.11755, 0);
position_unit!(pos_lon_a_01, true, 5.11755, 1);
position_unit!(pos_lon_a_02, true, 5.11755, 2);
position_unit!(pos_lon_a_03, true, 5.11755, 3);
position_unit!(pos_lon_a_04, true, 5.11755, 4);
position_unit!(pos_lon_a_05, true, 5.11755, 5);
position_unit!(pos_lon_a_06, true, 5.11755, 6);
position_unit!(pos_lon_a_07, true, 5.11755, 7);
position_unit!(pos_lon_a_08, true, 5.11755, 8);
position_unit!(pos_lon_a_09, true, 5.11755, 9);
position_unit!(pos_lon_a_10, true, 5.11755, 10);
position_unit!(pos_lon_a_11, true, 5.11755, 11);
position_unit!(pos_lon_a_12, true, 5.11755, 12);
position_unit!(pos_lon_a_13, true, 5.11755, 13);
position_unit!(pos_lon_a_14, true, 5.11755, 14);
position_unit!(pos_lon_a_15, true, 5.11755, 15);
position_unit!(pos_lat_b_00, false, -33.94611, 0);
position_unit!(pos_lat_b_01, false, -33.94611, 1);
position_unit!(pos_lat_b_02, false, -33.94611, 2);
position_unit!(pos_lat_b_03, false, -33.94611, 3);
position_unit!(pos_lat_b_04, false, -33.94611, 4);
position_unit!(pos_lat_b_05, false, -33.94611, 5);
position_unit!(pos_lat_b_06, false, -33.94611, 6);
position_unit!(pos_lat_b_07, false, -33.94611, 7);
position_unit!(pos_lon_b_00, true, -179.99, 0);
position_unit!(pos_lon_b_01, true, -179.99, 1);
position_unit!(pos_lon_b_02, true, -179.99, 2);
position_unit!(pos_lon_b_03, true, -179.99, 3);
position_unit!(pos_lon_b_04, true, -179.99, 4);
position_unit!(pos_lon_b_05, true, -179.99, 5);
position_unit!(pos_lon_b_06, true, -179.99, 6);
position_unit!(pos_lon_b_07, true, -179.99, 7);
position_unit!(pos_lon_b_08, true, -179.99, 8);
position_unit!(pos_lon_b_09, true, -179.99, 9);
position_unit!(pos_lon_b_10, true, -179.99, 10);
position_unit!(pos_lon_b_11, true, -179.99, 11);
position_unit!(pos_lon_b_12, true, -179.99, 12);
position_unit!(pos_lon_b_13, true, -179.99, 13);
position_unit!(pos_lon_b_14, true, -179.99, 14);
position_unit!(pos_lon_b_15, true, -179.99, 15);
position_unit!(pos_lat_c_00, false, 89.99, 0);
position_unit!(pos_lat_c_01, false, 89.99, 1);
position_unit!(pos_lat_c_02, false, 89.99, 2);
position_unit!(pos_lat_c_03, false, 89.99, 3);
position_unit!(pos_lat_c_04, false, 89.99, 4);
position_unit!(pos_lat_c_05, false, 89.99, 5);
position_unit!(pos_lat_c_06, false, 89.99, 6);
position_unit!(pos_lat_c_07, false, 89.99, 7);
position_unit!(pos_lon_c_00, true, 179.99, 0);
position_unit!(pos_lon_c_01, true, 179.99, 1);
position_unit!(pos_lon_c_02, true, 179.99, 2);
position_unit!(pos_lon_c_03, true, 179.99, 3);
position_unit!(pos_lon_c_04, true, 179.99, 4);
position_unit!(pos_lon_c_05, true, 179.99, 5);
position_unit!(pos_lon_c_06, true, 179.99, 6);
position_unit!(pos_lon_c_07, true, 179.99, 7);
position_unit!(pos_lon_c_08, true, 179.99, 8);
position_unit!(pos_lon_c_09, true, 179.99, 9);
position_unit!(pos_lon_c_10, true, 179.99, 10);
position_unit!(pos_lon_c_11, true, 179.99, 11);
position_unit!(pos_lon_c_12, true, 179.99, 12);
position_unit!(pos_lon_c_13, true, 179.99, 13);
position_unit!(pos_lon_c_14, true, 179.99, 14);
position_unit!(pos_lon_c_15, true, 179.99, 15);

macro_rules! cipher_word {
    ($name:ident, $i:expr) => {
        harness! {
            #[kani::unwind(30)]
            #[kani::solver(kissat)]
            #[kani::stub(alloc::fmt::format, crate::stubs::fmt_stub)]
            #[kani::stub(libm::atan2, crate::stubs::k::atan2_stub)]
#[kani::stub(f64::rem_euclid, crate::stubs::k::rem_euclid_stub)]
            /// REAL cipher vs textbook XXTEA decryption + independent key schedule, word $i of the
            /// block, for every ciphertext block, timestamp (both key tables) and address
            fn $name(s) {
                let c: [u32; 5] = [s.u32(), s.u32(), s.u32(), s.u32(), s.u32()];
                let ts = s.u32();
                let addr = s.u32();
                vassume!(addr < (1 << 24));
                let msg = packet(addr, 0x10, &c, [0, 0]);
                let r = Flarm::from_record(ts, &[45.0, 5.0], &msg[..]);
                vcover!(r.is_ok());
                if let Ok(f) = &r {
                    let mut p = c;
                    decrypt_ref(&mut p, &key_ref(ts, addr));
                    vassert!(f.decoded[$i] == p[$i], "decrypted word equals the reference decryption");
                }
                core::mem::forget(r);
            }
        }
    };
}
cipher_word!(cipher_word0, 0);
cipher_word!(cipher_word1, 1);
cipher_word!(cipher_word2, 2);
cipher_word!(cipher_word3, 3);
cipher_word!(cipher_word4, 4);

registry!(total_len26, total_len00, total_len03, total_len04, total_len19, total_len25, total_len27, total_len40,
          fields_discrete, fields_discrete_q, total_len26_id, part26_position, part26_velocity, part26_discrete,
          pos_lat_a_00, pos_lat_a_01, pos_lat_a_02, pos_lat_a_03, pos_lat_a_04, pos_lat_a_05, pos_lat_a_06, pos_lat_a_07, pos_lon_a_00, pos_lon_a_01, pos_lon_a_02, pos_lon_a_03, pos_lon_a_04, pos_lon_a_05, pos_lon_a_06, pos_lon_a_07, pos_lon_a_08, pos_lon_a_09, pos_lon_a_10, pos_lon_a_11, pos_lon_a_12, pos_lon_a_13, pos_lon_a_14, pos_lon_a_15, pos_lat_b_00, pos_lat_b_01, pos_lat_b_02, pos_lat_b_03, pos_lat_b_04, pos_lat_b_05, pos_lat_b_06, pos_lat_b_07, pos_lon_b_00, pos_lon_b_01, pos_lon_b_02, pos_lon_b_03, pos_lon_b_04, pos_lon_b_05, pos_lon_b_06, pos_lon_b_07, pos_lon_b_08, pos_lon_b_09, pos_lon_b_10, pos_lon_b_11, pos_lon_b_12, pos_lon_b_13, pos_lon_b_14, pos_lon_b_15, pos_lat_c_00, pos_lat_c_01, pos_lat_c_02, pos_lat_c_03, pos_lat_c_04, pos_lat_c_05, pos_lat_c_06, pos_lat_c_07, pos_lon_c_00, pos_lon_c_01, pos_lon_c_02, pos_lon_c_03, pos_lon_c_04, pos_lon_c_05, pos_lon_c_06, pos_lon_c_07, pos_lon_c_08, pos_lon_c_09, pos_lon_c_10, pos_lon_c_11, pos_lon_c_12, pos_lon_c_13, pos_lon_c_14, pos_lon_c_15, cipher_word0, cipher_word1, cipher_word2, cipher_word3, cipher_word4);

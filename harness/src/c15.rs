//! C15 — FLARM decoding (rs1090::decode::flarm): total, finite, track in [0, 360), and it
//! inverts an independent packer / XXTEA encryptor.
use crate::src::Src;
use rs1090::decode::flarm::{AircraftType, Flarm};

// ------------------------------------------------------------ independent reference (textbook XXTEA,
// Wheeler & Needham 1998, 6 rounds, n = 5; key schedule from the public FLARM v6 description)
const KEY1: [i64; 4] = [0xe43276df, 0xdca83759, 0x9802b8ac, 0x4675a56b];
const KEY1B: [i64; 4] = [0xfc78ea65, 0x804b90ea, 0xb76542cd, 0x329dfa32];
const DELTA: u32 = 0x9E3779B9;

fn obscure_ref(key: i64, seed: u64) -> i64 {
    let m1 = seed.wrapping_mul((key ^ (key >> 16)) as u64) as u32;
    let m2 = seed.wrapping_mul((m1 ^ (m1 >> 16)) as u64) as u32;
    (m2 ^ (m2 >> 16)) as i64
}
fn key_ref(time: u32, address24: u32) -> [u32; 4] {
    let time = time as i64;
    let address = ((address24 << 8) & 0xffffff) as i64;
    let table = if (time >> 23) & 1 != 0 { &KEY1B } else { &KEY1 };
    let mut k = [0u32; 4];
    let mut i = 0;
    while i < 4 {
        k[i] = (obscure_ref(table[i] ^ ((time >> 6) ^ address), 0x045D9F3B) ^ 0x87B562F4) as u32;
        i += 1;
    }
    k
}
#[inline(always)]
fn mx_ref(sum: u32, y: u32, z: u32, p: usize, e: usize, k: &[u32; 4]) -> u32 {
    (((z >> 5) ^ (y << 2)).wrapping_add((y >> 3) ^ (z << 4))) ^ ((sum ^ y).wrapping_add(k[(p & 3) ^ e] ^ z))
}
fn decrypt_ref(v: &mut [u32; 5], k: &[u32; 4]) {
    let n = 5usize;
    let mut sum: u32 = DELTA.wrapping_mul(6);
    let mut y = v[0];
    let mut r = 0;
    while r < 6 {
        let e = ((sum >> 2) & 3) as usize;
        let mut p = n - 1;
        while p > 0 {
            let z = v[p - 1];
            v[p] = v[p].wrapping_sub(mx_ref(sum, y, z, p, e, k));
            y = v[p];
            p -= 1;
        }
        let z = v[n - 1];
        v[0] = v[0].wrapping_sub(mx_ref(sum, y, z, 0, e, k));
        y = v[0];
        sum = sum.wrapping_sub(DELTA);
        r += 1;
    }
}
fn encrypt_ref(v: &mut [u32; 5], k: &[u32; 4]) {
    let n = 5usize;
    let mut sum: u32 = 0;
    let mut z = v[n - 1];
    let mut r = 0;
    while r < 6 {
        sum = sum.wrapping_add(DELTA);
        let e = ((sum >> 2) & 3) as usize;
        let mut p = 0;
        while p < n - 1 {
            let y = v[p + 1];
            v[p] = v[p].wrapping_add(mx_ref(sum, y, z, p, e, k));
            z = v[p];
            p += 1;
        }
        let y = v[0];
        v[n - 1] = v[n - 1].wrapping_add(mx_ref(sum, y, z, n - 1, e, k));
        z = v[n - 1];
        r += 1;
    }
}

fn packet(addr: u32, magic: u8, words: &[u32; 5], tail: [u8; 2]) -> [u8; 26] {
    let mut m = [0u8; 26];
    m[0] = addr as u8;
    m[1] = (addr >> 8) as u8;
    m[2] = (addr >> 16) as u8;
    m[3] = magic;
    let mut i = 0;
    while i < 5 {
        let b = words[i].to_le_bytes();
        m[4 + 4 * i] = b[0];
        m[5 + 4 * i] = b[1];
        m[6 + 4 * i] = b[2];
        m[7 + 4 * i] = b[3];
        i += 1;
    }
    m[24] = tail[0];
    m[25] = tail[1];
    m
}

/// Under Kani the cipher is replaced by the identity (field harnesses only), so the packet
/// carries the plaintext words; natively the real cipher runs, so the packet carries the words
/// encrypted by the independent encryptor.
#[cfg(kani)]
fn btea_identity(_v: &mut [u32], _k: &[u32]) {}
fn cipher_words(plain: &[u32; 5], ts: u32, addr: u32) -> [u32; 5] {
    #[cfg(kani)]
    { let _ = (ts, addr); *plain }
    #[cfg(not(kani))]
    { let mut c = *plain; encrypt_ref(&mut c, &key_ref(ts, addr)); c }
}

fn address_of(f: &Flarm) -> u32 {
    // Address is a private newtype around u32: read it by layout
    unsafe { *(&f.icao24 as *const _ as *const u32) }
}

fn actype_of(i: u32) -> AircraftType {
    match i {
        0 => AircraftType::Unknown, 1 => AircraftType::Glider, 2 => AircraftType::Towplane, 3 => AircraftType::Helicopter,
        4 => AircraftType::Parachute, 5 => AircraftType::DropPlane, 6 => AircraftType::Hangglider, 7 => AircraftType::Paraglider,
        8 => AircraftType::Aircraft, 9 => AircraftType::Jet, 10 => AircraftType::UFO, 11 => AircraftType::Balloon,
        12 => AircraftType::Airship, 13 => AircraftType::UAV, 14 => AircraftType::Reserved, _ => AircraftType::StaticObstacle,
    }
}

fn finite_and_track(f: &Flarm) {
    vassert!(f.latitude.is_finite() && f.longitude.is_finite(), "position finite");
    vassert!(f.groundspeed.is_finite() && f.groundspeed >= 0.0, "ground speed finite and non-negative");
    vassert!(f.vertical_speed.is_finite(), "vertical speed finite");
    vassert!(f.reference_lat.to_bits() == f.reference_lat.to_bits(), "reference echoed");
    vassert!(f.track.is_finite(), "track finite");
    vassert!(f.track >= 0.0 && f.track < 360.0, "track in [0, 360)");
}

harness! {
    #[kani::unwind(30)]
    #[kani::stub(alloc::fmt::format, crate::stubs::fmt_stub)]
    #[kani::stub(libm::atan2, crate::stubs::k::atan2_stub)]
    /// REAL cipher: any 26-byte packet, any timestamp, any reference bit patterns (NaN / inf
    /// included): a record or an error, no panic; numbers of a record finite, track in [0, 360)
    fn total_len26(s) {
        let buf: [u8; 26] = s.bytes();
        let ts = s.u32();
        let reference = [s.f64(), s.f64()];
        let r = Flarm::from_record(ts, &reference, &buf[..]);
        vcover!(r.is_ok());
        vcover!(r.is_err());
        if let Ok(f) = &r { finite_and_track(f); }
        core::mem::forget(r);
    }
}

macro_rules! total_len {
    ($name:ident, $len:expr) => {
        harness! {
            #[kani::unwind(46)]
            #[kani::stub(alloc::fmt::format, crate::stubs::fmt_stub)]
            #[kani::stub(libm::atan2, crate::stubs::k::atan2_stub)]
            #[kani::stub(rs1090::decode::flarm::btea, btea_identity)]
            /// packets of one concrete length (contents, timestamp, reference symbolic; cipher
            /// replaced by the identity — its own totality is total_len26): no panic; shorter than
            /// 26 bytes is an error; a record has finite numbers and track in [0, 360)
            fn $name(s) {
                let buf: [u8; 40] = s.bytes();
                let ts = s.u32();
                let reference = [s.f64(), s.f64()];
                let r = Flarm::from_record(ts, &reference, &buf[..$len]);
                vcover!(r.is_err());
                if $len < 26 { vassert!(r.is_err(), "truncated packet is an error"); }
                if let Ok(f) = &r { finite_and_track(f); }
                core::mem::forget(r);
            }
        }
    };
}
total_len!(total_len00, 0);
total_len!(total_len03, 3);
total_len!(total_len04, 4);
total_len!(total_len19, 19);
total_len!(total_len25, 25);
total_len!(total_len27, 27);
total_len!(total_len40, 40);

harness! {
    #[kani::unwind(30)]
    #[kani::stub(alloc::fmt::format, crate::stubs::fmt_stub)]
    #[kani::stub(libm::atan2, crate::stubs::k::atan2_stub)]
    #[kani::stub(rs1090::decode::flarm::btea, btea_identity)]
    /// discrete fields for EVERY plaintext block, address, timestamp and address kind (reference
    /// fixed): address, kind, type, flags, GPS status, altitude equal the packer's bit slices
    /// (under Kani the cipher is the identity; natively the block is encrypted by the independent
    /// XXTEA encryptor and decrypted by the real code)
    fn fields_discrete(s) {
        let words: [u32; 5] = [s.u32(), s.u32(), s.u32(), s.u32(), s.u32()];
        let ts = s.u32();
        let addr = s.u32();
        let icao_kind = s.bool();
        let tail: [u8; 2] = s.bytes();
        vassume!(addr < (1 << 24));
        let magic = if icao_kind { 0x10 } else { 0x20 };
        let msg = packet(addr, magic, &cipher_words(&words, ts, addr), tail);
        let r = Flarm::from_record(ts, &[45.0, 5.0], &msg[..]);
        vcover!(r.is_ok());
        vassert!(r.is_ok(), "well-formed packet decodes");
        if let Ok(f) = &r {
            vassert!(f.decoded.len() == 5 && f.decoded[0] == words[0] && f.decoded[1] == words[1] && f.decoded[2] == words[2]
                     && f.decoded[3] == words[3] && f.decoded[4] == words[4], "plaintext block recovered");
            vassert!(address_of(f) == addr, "device address");
            vassert!(f.is_icao24 == icao_kind, "address kind flag");
            vassert!(f.timestamp == ts, "timestamp echoed");
            vassert!(f.actype == actype_of(words[0] >> 28), "aircraft type");
            vassert!(f.stealth == ((words[0] >> 13) & 1 == 1) && f.no_track == ((words[0] >> 14) & 1 == 1), "stealth / no-track flags");
            vassert!(f.gps == (words[0] >> 16) & 0xfff, "GPS status");
            vassert!(f.geoaltitude == (words[1] >> 19) & 0x1fff, "altitude (m)");
            finite_and_track(f);
        }
        core::mem::forget(r);
    }
}

macro_rules! position {
    ($name:ident, $lon:expr) => {
        harness! {
            #[kani::unwind(30)]
            #[kani::stub(alloc::fmt::format, crate::stubs::fmt_stub)]
            #[kani::stub(libm::atan2, crate::stubs::k::atan2_stub)]
            #[kani::stub(rs1090::decode::flarm::btea, btea_identity)]
            /// position reconstruction of one coordinate: every finite reference on the globe, every
            /// true position inside the decodable window around it, every value of the other bits of
            /// the word that carries it: decoded within one quantisation step (128e-7 deg) of the truth
            fn $name(s) {
                let w = s.u32();
                let reference = s.f64();
                let truth = s.u32() as i32; // 1e-7 degree units
                let ts = s.u32();
                let lim = if $lon { 180.0 } else { 90.0 };
                vassume!(reference >= -lim && reference <= lim);
                let (mask, half): (u32, i64) = if $lon { (0xfffff, 0x80000) } else { (0x7ffff, 0x40000) };
                vassume!(w & mask == ((truth >> 7) as u32) & mask);
                let r0 = (reference * 1e7) as i64;
                vassume!(((truth as i64) - r0).abs() < (half - 2) * 128);
                let words: [u32; 5] = if $lon { [0, 0, w, 0, 0] } else { [0, w, 0, 0, 0] };
                let msg = packet(0x123456, 0x10, &cipher_words(&words, ts, 0x123456), [0, 0]);
                let refs = if $lon { [45.0, reference] } else { [reference, 5.0] };
                let r = Flarm::from_record(ts, &refs, &msg[..]);
                vcover!(r.is_ok());
                vassert!(r.is_ok(), "well-formed packet decodes");
                if let Ok(f) = &r {
                    let got = if $lon { f.longitude } else { f.latitude };
                    let d = got * 1e7 - truth as f64;
                    vcover!(truth < 0);
                    vassert!(d >= -129.0 && d <= 129.0, "coordinate within one quantisation step of the true position");
                }
                core::mem::forget(r);
            }
        }
    };
}
position!(position_lat, false);
position!(position_lon, true);

macro_rules! cipher_word {
    ($name:ident, $i:expr) => {
        harness! {
            #[kani::unwind(30)]
            #[kani::solver(kissat)]
            #[kani::stub(alloc::fmt::format, crate::stubs::fmt_stub)]
            #[kani::stub(libm::atan2, crate::stubs::k::atan2_stub)]
            /// REAL cipher vs textbook XXTEA decryption + independent key schedule, word $i of the
            /// block, for every ciphertext block, timestamp (both key tables) and address
            fn $name(s) {
                let c: [u32; 5] = [s.u32(), s.u32(), s.u32(), s.u32(), s.u32()];
                let ts = s.u32();
                let addr = s.u32();
                vassume!(addr < (1 << 24));
                let msg = packet(addr, 0x10, &c, [0, 0]);
                let r = Flarm::from_record(ts, &[45.0, 5.0], &msg[..]);
                vcover!(r.is_ok());
                if let Ok(f) = &r {
                    let mut p = c;
                    decrypt_ref(&mut p, &key_ref(ts, addr));
                    vassert!(f.decoded[$i] == p[$i], "decrypted word equals the reference decryption");
                }
                core::mem::forget(r);
            }
        }
    };
}
cipher_word!(cipher_word0, 0);
cipher_word!(cipher_word1, 1);
cipher_word!(cipher_word2, 2);
cipher_word!(cipher_word3, 3);
cipher_word!(cipher_word4, 4);

registry!(total_len26, total_len00, total_len03, total_len04, total_len19, total_len25, total_len27, total_len40,
          fields_discrete, position_lat, position_lon, cipher_word0, cipher_word1, cipher_word2, cipher_word3, cipher_word4);

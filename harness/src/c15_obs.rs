// included by c15.rs under feature c15obs
// ---- the key schedule, observed where the real code hands the key to the cipher: `btea` is replaced by a stub that
// RECORDS the key it is given, and the private mixing function `obscure` by a stub that records its arguments and returns
// an arbitrary 32-bit value (proving two copies of its 64-bit multiplications equal is a multiplier miter: no answer from
// CaDiCaL in 20 min or kissat in 10).  Decided: the table selected by bit 23 of the time, `time >> 6`, `address << 8`, the
// word handed to `obscure` for each of the four key words, the seed, the final mask, the order of the words.  `obscure`
// itself is compared with the reference in `obscure_equiv`.  Natively the real cipher runs on a block encrypted by the
// independent encryptor under the independent key, so a wrong key shows as a wrong plaintext.
#[cfg(kani)]
static mut KEY_SEEN: [u32; 4] = [0; 4];
#[cfg(kani)]
static mut KEY_CALLS: u32 = 0;
#[cfg(kani)]
fn btea_record(_v: &mut [u32], k: &[u32]) {
    assert!(k.len() == 4, "PROP: the cipher is given a four-word key");
    unsafe { KEY_SEEN = [k[0], k[1], k[2], k[3]]; KEY_CALLS += 1; }
}
#[cfg(kani)]
static mut OBS_ARGS: [(i64, u64); 4] = [(0, 0); 4];
#[cfg(kani)]
static mut OBS_RET: [i64; 4] = [0; 4];
#[cfg(kani)]
static mut OBS_N: usize = 0;
#[cfg(kani)]
fn obscure_rec(key: i64, seed: u64) -> i64 {
    let r: i64 = kani::any();
    kani::assume(r >= 0 && r <= 0xffff_ffff);
    unsafe {
        if OBS_N < 4 { OBS_ARGS[OBS_N] = (key, seed); OBS_RET[OBS_N] = r; }
        OBS_N += 1;
    }
    r
}
harness! {
    #[kani::unwind(30)]
    #[kani::stub(alloc::fmt::format, crate::stubs::fmt_stub)]
    #[kani::stub(libm::atan2, crate::stubs::k::atan2_stub)]
#[kani::stub(f64::rem_euclid, crate::stubs::k::rem_euclid_stub)]
    #[kani::stub(rs1090::decode::flarm::btea, btea_record)]
    #[kani::stub(rs1090::decode::flarm::obscure, obscure_rec)]
    /// every timestamp (all 2^32), every 24-bit address, both address kinds; the block is one concrete value (the key does
    /// not depend on it, and a symbolic block drags the whole position / track arithmetic into the formula: 443 s vs seconds)
    fn key_schedule(s) {
        let words: [u32; 5] = [0x1234_5678, 0x0abc_def0, 0x0fed_cba9, 0x0765_4321, 0x0357_9bdf];
        let ts = s.u32();
        let addr = s.u32();
        let icao_kind = s.bool();
        let tail: [u8; 2] = [0, 0];
        vassume!(addr < (1 << 24));
        let magic = if icao_kind { 0x10 } else { 0x20 };
        let msg = packet(addr, magic, &cipher_words(&words, ts, addr), tail);
        #[cfg(kani)]
        unsafe { KEY_CALLS = 0; OBS_N = 0; }
        let r = Flarm::from_record(ts, &[45.0, 5.0], &msg[..]);
        vcover!(r.is_ok());
        #[cfg(kani)]
        unsafe {
            let time = ts as i64;
            let address = ((addr << 8) & 0xffffff) as i64;
            let table = if (time >> 23) & 1 != 0 { &KEY1B } else { &KEY1 };
            vassert!(KEY_CALLS == 1, "the block is deciphered exactly once");
            vassert!(OBS_N == 4, "four key words are derived");
            let mut i = 0;
            while i < 4 {
                vassert!(OBS_ARGS[i].0 == table[i] ^ ((time >> 6) ^ address) && OBS_ARGS[i].1 == 0x045D9F3B,
                         "key word i is mixed from table[i] ^ (time >> 6) ^ (address << 8) with the schedule's seed (table chosen by bit 23 of the time)");
                vassert!(KEY_SEEN[i] == (OBS_RET[i] ^ 0x87B562F4) as u32, "the cipher key is the masked mixing result, words in order");
                i += 1;
            }
        }
        #[cfg(not(kani))]
        {
            vassert!(r.is_ok(), "well-formed packet decodes");
            if let Ok(f) = &r {
                vassert!(f.decoded.len() == 5 && f.decoded[0] == words[0] && f.decoded[1] == words[1] && f.decoded[2] == words[2]
                         && f.decoded[3] == words[3] && f.decoded[4] == words[4], "the cipher key is the one derived from timestamp and address by the key schedule");
            }
        }
        core::mem::forget(r);
    }
}

/// the private mixing function, reached as the replacement of this public dummy (Kani resolves stub paths regardless of privacy)
pub fn obscure_kernel(_key: i64, _seed: u64) -> i64 { unreachable!() }
harness! {
    #[kani::unwind(4)]
    #[kani::stub(obscure_kernel, rs1090::decode::flarm::obscure)]
    #[kani::solver(kissat)]
    /// obscure(key, 0x045D9F3B) equals the reference mixing function for every 64-bit key.  Natively: one block through
    /// from_record with a timestamp / address derived from the tape (the real schedule and cipher against the independent ones).
    fn obscure_equiv(s) {
        let key = s.u64() as i64;
        #[cfg(kani)]
        {
            let got = obscure_kernel(key, 0x045D9F3B);
            vcover!(got != 0);
            vassert!(got == obscure_ref(key, 0x045D9F3B), "obscure() is the schedule's mixing function");
        }
        #[cfg(not(kani))]
        {
            let ts = key as u32;
            let addr = ((key >> 32) as u32) & 0xffffff;
            let words = [0x1234_5678u32, 0x9abc_def0, 0x0fed_cba9, 0x8765_4321, 0x1357_9bdf];
            let msg = packet(addr, 0x10, &cipher_words(&words, ts, addr), [0, 0]);
            let r = Flarm::from_record(ts, &[45.0, 5.0], &msg[..]);
            vassert!(matches!(&r, Ok(f) if f.decoded == words), "obscure() is the schedule's mixing function");
        }
    }
}


pub const OBS: &[(&str, fn(&mut crate::src::Tape))] = &[
    (concat!(module_path!(), "::key_schedule"), key_schedule::replay),
    (concat!(module_path!(), "::obscure_equiv"), obscure_equiv::replay),
];

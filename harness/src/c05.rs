//! C05 — reference-based CPR decoding (airborne_position_with_reference,
//! surface_position_with_reference): exact within range, and never far from the reference.
//! Same integer cell oracle as C04: a report with extended count E (parity i) comes from the
//! latitudes whose cell centre is D_i * E / 2^17.
use crate::c04::{nl_borderline, nl_ref, report, NL_REP, P17};
use crate::src::Src;
use rs1090::decode::bds::bds06::SurfacePosition;
use rs1090::decode::cpr::{airborne_position_with_reference, surface_position_with_reference, Position};
use rs1090::prelude::*;

/// surface position report (tc = 7, movement/track arbitrary constants) with parity and counts
pub fn surface_report(odd: bool, yz: u32, xz: u32) -> SurfacePosition {
    let f = if odd { 0x04u8 } else { 0x00 };
    let b = [
        (7u8 << 3) | 0x1,
        0x23,
        0x80 | f | ((yz >> 15) & 0x03) as u8,
        (yz >> 7) as u8,
        (((yz & 0x7f) << 1) | ((xz >> 16) & 1)) as u8,
        (xz >> 8) as u8,
        xz as u8,
    ];
    SurfacePosition::try_from(&b[..]).unwrap()
}

fn close(a: f64, b: f64) -> bool { let d = a - b; d > -1e-9 && d < 1e-9 }
fn absf(x: f64) -> f64 { if x < 0.0 { -x } else { x } }

fn decode(surface: bool, odd: bool, yz: u32, xz: u32, lr: f64, gr: f64) -> Option<Position> {
    if surface {
        surface_position_with_reference(&surface_report(odd, yz, xz), lr, gr)
    } else {
        airborne_position_with_reference(&report(odd, yz, xz), lr, gr)
    }
}

macro_rules! stays_near {
    ($name:ident, $surface:expr) => {
        harness! {
            #[kani::unwind(60)]
            #[kani::stub(alloc::fmt::format, crate::stubs::fmt_stub)]
            /// ANY finite reference (all finite f64 bit patterns) x any counts x both parities:
            /// no panic; a returned position has latitude in [-90, 90] and lies within half a zone
            /// of the reference in both coordinates
            fn $name(s) {
                let odd = s.bool();
                let yz = s.u32();
                let xz = s.u32();
                let lr = s.f64();
                let gr = s.f64();
                vassume!(yz < 131072 && xz < 131072 && lr.is_finite() && gr.is_finite());
                let r = decode($surface, odd, yz, xz, lr, gr);
                vcover!(r.is_some());
                vcover!(r.is_none());
                if let Some(p) = r {
                    let span = if $surface { 90.0 } else { 360.0 };
                    let d_lat = if odd { span / 59.0 } else { span / 60.0 };
                    vassert!(p.latitude >= -90.0 && p.latitude <= 90.0, "latitude in [-90, 90]");
                    vassert!(p.latitude.is_finite() && p.longitude.is_finite(), "finite position");
                    vassert!(absf(p.latitude - lr) <= d_lat / 2.0 + 1e-9, "latitude within half a zone of the reference");
                    // oracle NL (one band wider when the latitude is within 1e-9 of a transition)
                    let mut n = nl_ref(p.latitude) - if odd { 1 } else { 0 };
                    if nl_borderline(p.latitude) { n -= 1; }
                    let d_lon = if n > 0 { span / n as f64 } else { span };
                    vassert!(absf(p.longitude - gr) <= d_lon / 2.0 + 1e-9, "longitude within half a zone of the reference");
                }
            }
        }
    };
}
stays_near!(near_airborne, false);
stays_near!(near_surface, true);

// (cutting these two into eight pieces each - parity x hemisphere x side of the reference longitude - does not make the
// pieces cheaper: one piece took 1081 s; the cost is in the formula, not in the size of the input space)

// quick-tier instance of the stays-near clause: the reference latitude within 5 degrees of the equator (one NL band: the
// decoded latitude stays within 8 degrees, NL = 59), every reference longitude, every count pair, both parities.  The
// clause over ALL references is near_airborne / near_surface (18-20 min each, thorough tier).
macro_rules! stays_near_eq {
    ($name:ident, $surface:expr) => {
        harness! {
            #[kani::unwind(60)]
            #[kani::stub(alloc::fmt::format, crate::stubs::fmt_stub)]
            fn $name(s) {
                let odd = s.bool();
                let yz = s.u32();
                let xz = s.u32();
                let lr = s.f64();
                let gr = s.f64();
                vassume!(yz < 131072 && xz < 131072 && lr >= -5.0 && lr <= 5.0 && gr.is_finite());
                let r = decode($surface, odd, yz, xz, lr, gr);
                vcover!(r.is_some());
                if let Some(p) = r {
                    let span = if $surface { 90.0 } else { 360.0 };
                    let d_lat = if odd { span / 59.0 } else { span / 60.0 };
                    let d_lon = if odd { span / 58.0 } else { span / 59.0 };
                    vassert!(p.latitude.is_finite() && p.longitude.is_finite(), "finite position");
                    vassert!(absf(p.latitude - lr) <= d_lat / 2.0 + 1e-9, "latitude within half a zone of the reference");
                    vassert!(absf(p.longitude - gr) <= d_lon / 2.0 + 1e-9, "longitude within half a zone of the reference");
                }
            }
        }
    };
}
stays_near_eq!(near_air_equator, false);
stays_near_eq!(near_surf_equator, true);

// further latitude bands of the same clause, with the oracle's NL for the zone width (as in near_airborne)
macro_rules! stays_near_band {
    ($name:ident, $surface:expr, $lo:expr, $hi:expr) => {
        harness! {
            #[kani::unwind(60)]
            #[kani::stub(alloc::fmt::format, crate::stubs::fmt_stub)]
            fn $name(s) {
                let odd = s.bool();
                let yz = s.u32();
                let xz = s.u32();
                let lr = s.f64();
                let gr = s.f64();
                vassume!(yz < 131072 && xz < 131072 && lr >= $lo && lr <= $hi && gr.is_finite());
                let r = decode($surface, odd, yz, xz, lr, gr);
                vcover!(r.is_some());
                if let Some(p) = r {
                    let span = if $surface { 90.0 } else { 360.0 };
                    let d_lat = if odd { span / 59.0 } else { span / 60.0 };
                    vassert!(p.latitude >= -90.0 && p.latitude <= 90.0, "latitude in [-90, 90]");
                    vassert!(p.latitude.is_finite() && p.longitude.is_finite(), "finite position");
                    vassert!(absf(p.latitude - lr) <= d_lat / 2.0 + 1e-9, "latitude within half a zone of the reference");
                    let mut n = nl_ref(p.latitude) - if odd { 1 } else { 0 };
                    if nl_borderline(p.latitude) { n -= 1; }
                    let d_lon = if n > 0 { span / n as f64 } else { span };
                    vassert!(absf(p.longitude - gr) <= d_lon / 2.0 + 1e-9, "longitude within half a zone of the reference");
                }
            }
        }
    };
}
stays_near_band!(near_air_mid_n, false, 44.0, 46.0);
stays_near_band!(near_air_mid_s, false, -46.0, -44.0);
stays_near_band!(near_air_polar, false, 86.0, 90.0);
stays_near_band!(near_surf_mid_n, true, 44.0, 46.0);
stays_near_band!(near_surf_polar_s, true, -90.0, -86.0);

macro_rules! lat_exact {
    ($name:ident, $surface:expr, $odd:expr) => { lat_exact!($name, $surface, $odd, -1000, 1000); };
    ($name:ident, $surface:expr, $odd:expr, $zlo:expr, $zhi:expr) => {
        harness! {
            #[kani::unwind(60)]
            #[kani::stub(alloc::fmt::format, crate::stubs::fmt_stub)]
            /// latitude: every true cell E in [-90, 90], every reference within 0.95 of half a
            /// latitude zone of the true latitude (and of half the narrowest longitude zone of
            /// longitude 0): the decoded position is the true cell centre
            fn $name(s) {
                let e = s.i64();
                let lr = s.f64();
                let gr = s.f64();
                let span = if $surface { 90.0 } else { 360.0 };
                let nz: i64 = if $odd { 59 } else { 60 };
                // |lat| <= 90  <=>  |E| <= nz * 2^17 * 90 / span
                let emax = if $surface { nz * P17 } else { nz * P17 / 4 };
                vassume!(e >= -emax && e <= emax);
                // restriction to latitude zones $zlo..=$zhi (zone = E div 2^17); -1000..1000 = no restriction
                vassume!(e >= $zlo * P17 && e < ($zhi + 1) * P17);
                let d_lat = span / nz as f64;
                let truth = d_lat * (e as f64) / 131072.0;
                vassume!(lr.is_finite() && absf(lr - truth) <= 0.475 * d_lat);
                vassume!(gr.is_finite() && absf(gr) <= 0.475 * (span / 59.0));
                vassume!(!nl_borderline(truth));
                let r = decode($surface, $odd, e.rem_euclid(P17) as u32, 0, lr, gr);
                vcover!(r.is_some());
                vassert!(r.is_some(), "a reference within range decodes");
                if let Some(p) = r {
                    vassert!(close(p.latitude, truth), "latitude is the true cell centre");
                    vassert!(close(p.longitude, 0.0), "longitude is the true cell centre");
                }
            }
        }
    };
}
lat_exact!(lat_air_even, false, false);
lat_exact!(lat_air_odd, false, true);
lat_exact!(lat_surf_even, true, false);
lat_exact!(lat_surf_odd, true, true);
include!("gen/c05_lat.rs");

macro_rules! lon_exact_ref {
    ($name:ident, $surface:expr, $odd:expr, $nl:expr) => {
        harness! {
            #[kani::unwind(60)]
            #[kani::stub(alloc::fmt::format, crate::stubs::fmt_stub)]
            /// longitude at a latitude of band NL = $nl: every true longitude cell, every reference
            /// within 0.95 of half a zone in both coordinates (longitude difference modulo the span)
            fn $name(s) {
                const NL: i64 = $nl;
                const NI: i64 = if $odd { if NL > 1 { NL - 1 } else { 1 } } else { NL };
                let span = if $surface { 90.0 } else { 360.0 };
                let nz: i64 = if $odd { 59 } else { 60 };
                // airborne latitude count of the representative latitude of the band; the surface
                // encoding of the same latitude has a 4x finer count
                let e_air = if $odd { NL_REP[$nl].1 } else { NL_REP[$nl].0 };
                let e = if $surface { 4 * e_air } else { e_air };
                let d_lat = span / nz as f64;
                let truth_lat = d_lat * (e as f64) / 131072.0;
                let d_lon = span / NI as f64;
                let f = s.i64();
                let lr = s.f64();
                let gr = s.f64();
                let wrap = s.below(3) as i64 - 1; // reference on the other side of the wrap
                vassume!(f >= 0 && f < NI * P17);
                let truth_lon = d_lon * (f as f64) / 131072.0;
                vassume!(lr.is_finite() && absf(lr - truth_lat) <= 0.475 * d_lat);
                vassume!(gr.is_finite() && absf(gr - (truth_lon + span * wrap as f64)) <= 0.475 * d_lon);
                let r = decode($surface, $odd, e.rem_euclid(P17) as u32, f.rem_euclid(P17) as u32, lr, gr);
                vcover!(r.is_some());
                vassert!(r.is_some(), "a reference within range decodes");
                if let Some(p) = r {
                    vassert!(close(p.latitude, truth_lat), "latitude is the true cell centre");
                    vassert!(close(p.longitude, truth_lon + span * wrap as f64), "longitude is the true cell centre (modulo the span)");
                }
            }
        }
    };
}
include!("gen/c05_lon.rs");

pub const BASE: &[(&str, fn(&mut crate::src::Tape))] = &[
    (concat!(module_path!(), "::near_airborne"), near_airborne::replay),
    (concat!(module_path!(), "::near_surface"), near_surface::replay),
    (concat!(module_path!(), "::near_air_equator"), near_air_equator::replay),
    (concat!(module_path!(), "::near_surf_equator"), near_surf_equator::replay),
    (concat!(module_path!(), "::near_air_mid_n"), near_air_mid_n::replay),
    (concat!(module_path!(), "::near_air_mid_s"), near_air_mid_s::replay),
    (concat!(module_path!(), "::near_air_polar"), near_air_polar::replay),
    (concat!(module_path!(), "::near_surf_mid_n"), near_surf_mid_n::replay),
    (concat!(module_path!(), "::near_surf_polar_s"), near_surf_polar_s::replay),
    (concat!(module_path!(), "::lat_air_even"), lat_air_even::replay),
    (concat!(module_path!(), "::lat_air_odd"), lat_air_odd::replay),
    (concat!(module_path!(), "::lat_surf_even"), lat_surf_even::replay),
    (concat!(module_path!(), "::lat_surf_odd"), lat_surf_odd::replay),
];

//! Source of nondeterministic values: `kani::any()` under Kani, a byte tape natively.
//! Every draw is little-endian raw bytes of the drawn type, so that the concatenation of
//! the `concrete_vals` Kani's concrete playback prints is a valid tape as long as the
//! harness draws the same types in the same order (harnesses draw all their inputs before
//! calling the code under test; values drawn inside stubs come later and are ignored).

pub trait Src {
    fn u8(&mut self) -> u8;
    fn u16(&mut self) -> u16;
    fn u32(&mut self) -> u32;
    fn u64(&mut self) -> u64;
    fn bool(&mut self) -> bool {
        self.u8() & 1 == 1
    }
    fn i64(&mut self) -> i64 {
        self.u64() as i64
    }
    fn f64(&mut self) -> f64 {
        f64::from_bits(self.u64())
    }
    fn bytes<const N: usize>(&mut self) -> [u8; N] {
        let mut a = [0u8; N];
        let mut i = 0;
        while i < N {
            a[i] = self.u8();
            i += 1;
        }
        a
    }
    /// value in 0..n (n > 0)
    fn below(&mut self, n: u32) -> u32;
}

#[cfg(kani)]
pub struct K;
#[cfg(kani)]
impl Src for K {
    #[inline(always)]
    fn u8(&mut self) -> u8 {
        kani::any()
    }
    #[inline(always)]
    fn u16(&mut self) -> u16 {
        kani::any()
    }
    #[inline(always)]
    fn u32(&mut self) -> u32 {
        kani::any()
    }
    #[inline(always)]
    fn u64(&mut self) -> u64 {
        kani::any()
    }
    #[inline(always)]
    fn below(&mut self, n: u32) -> u32 {
        let v: u32 = kani::any();
        kani::assume(v < n);
        v
    }
}

/// Signals "this tape does not satisfy the harness' assumptions" natively.
pub struct AssumeFailed;

pub struct Tape {
    pub data: Vec<u8>,
    pub pos: usize,
}
impl Tape {
    pub fn new(data: Vec<u8>) -> Self {
        Tape { data, pos: 0 }
    }
    fn take(&mut self, n: usize) -> u64 {
        let mut v: u64 = 0;
        for i in 0..n {
            let b = if self.pos < self.data.len() { self.data[self.pos] } else { 0 };
            self.pos += 1;
            v |= (b as u64) << (8 * i);
        }
        v
    }
}
impl Src for Tape {
    fn u8(&mut self) -> u8 {
        self.take(1) as u8
    }
    fn u16(&mut self) -> u16 {
        self.take(2) as u16
    }
    fn u32(&mut self) -> u32 {
        self.take(4) as u32
    }
    fn u64(&mut self) -> u64 {
        self.take(8)
    }
    fn below(&mut self, n: u32) -> u32 {
        let v = self.take(4) as u32;
        if v >= n {
            std::panic::panic_any(AssumeFailed);
        }
        v
    }
}
